#!/usr/bin/env python3
# seed_recheck_par.py [-j N] [--all | name...]: like seed_recheck.py, but leaves /repo untouched: each seeded change is
# applied to copies of the files it touches and handed to the check as a source overlay, so several changes are checked
# at once (separate work directories). Replay harnesses run on the unmodified tree in this mode: a violation is still
# reported by its obligation. Updates detected_by / failed_obligations in the meta.json files.
import json, os, subprocess, sys, re, glob, shutil, tempfile
from concurrent.futures import ThreadPoolExecutor
def sh(cmd, env=None): return subprocess.run(cmd, shell=True, capture_output=True, text=True, env=env)
props = {p['id']: p for p in json.load(open('/verif/props.json'))}
args = sys.argv[1:]; jobs = 4
fast = '--fast' in args; args = [a for a in args if a != '--fast']
if args and args[0] == '-j': jobs = int(args[1]); args = args[2:]
names = args
if names == ['--all']:
    names = sorted(os.path.basename(os.path.dirname(m)) for m in glob.glob('/verif/seeded/*/meta.json'))
def one(name):
    d = f'/verif/seeded/{name}'
    meta = json.load(open(f'{d}/meta.json'))
    if meta.get('applies_to_current_repo') is False: return name, None
    patch = open(f'{d}/patch.diff').read()
    touched = sorted(set(re.findall(r'^\+\+\+ b/(.*)$', patch, re.M)))
    tmp = tempfile.mkdtemp(prefix='ov_' + name + '_')
    try:
        for t in touched:
            os.makedirs(os.path.dirname(f'{tmp}/{t}') or tmp, exist_ok=True)
            if os.path.exists(f'/repo/{t}'): shutil.copy(f'/repo/{t}', f'{tmp}/{t}')
        if sh(f'cd {tmp} && patch -p1 -s < {d}/patch.diff').returncode != 0:
            return name, 'patch does not apply'
        ov = {f'/repo/{t}': f'{tmp}/{t}' for t in touched}
        json.dump(ov, open(f'{tmp}/overlay.json', 'w'))
        rel = {meta.get('seeded_for', meta.get('property'))}
        for t in touched:
            dd = os.path.dirname(t)
            if dd.startswith('headerfs'): rel |= {'C07','C08','C01','C14'}
            elif dd.startswith('banman'): rel |= {'C13'}
            elif dd.startswith('cache'): rel |= {'C16'}
            elif dd.startswith('pushtx'): rel |= {'C15'}
            elif dd.startswith('blockntfns'): rel |= {'C11','C19'}
            elif dd.startswith('chainimport'): rel |= {'C14'}
            elif dd.startswith('query'): rel |= {'C12'}
            elif dd.startswith('filterdb'): rel |= {'C05'}
            elif dd == '': rel |= {'C01','C02','C03','C05','C06','C09','C10','C13','C19'}
        if fast and meta.get('detected_by'):
            # a change that was reported before: the property it was seeded for and the checks that reported it
            rel = {meta.get('seeded_for', meta.get('property'))} | set(meta['detected_by'])
        env = dict(os.environ, GOWP_NO_RETRY='1', GOWP_WORK_SUFFIX='_' + name)
        detected, broken, obligations = [], [], {}
        for pid in sorted(rel & set(props)):
            rr = sh(f'cd /verif && ./check {pid} --no-evidence --overlay {tmp}/overlay.json', env)
            if rr.returncode == 1 and 'VIOLATION' in rr.stdout:
                detected.append(pid); obligations[pid] = re.findall(r'failed obligation: (.*)', rr.stdout)
            elif rr.returncode == 2: broken.append(pid)
            shutil.rmtree(f'/verif/work/{pid}_{name}', ignore_errors=True)
            shutil.rmtree(f'/verif/replays/{pid}_{name}', ignore_errors=True)
        meta.update({'checks_run': sorted(rel & set(props)), 'detected_by': detected, 'failed_obligations': obligations, 'checks_undecided_exit2': broken})
        if detected: meta.pop('detection_note', None)
        json.dump(meta, open(f'{d}/meta.json', 'w'), indent=1)
        return name, f'detected_by {detected} exit2 {broken}'
    finally:
        shutil.rmtree(tmp, ignore_errors=True)
with ThreadPoolExecutor(max_workers=jobs) as ex:
    for name, res in ex.map(one, names):
        print(name, res, flush=True)

import sys,json
pid=sys.argv[1]
base=pid.rstrip('bcdef'); p=[json.loads(l) for l in open('/verif/properties.jsonl') if json.loads(l)['id']==base][0]
print(f"""You are working in a scratch git worktree of the Go project lightninglabs/neutrino (a Bitcoin light client) at /tmp/wt_{pid}. Work ONLY inside that directory: never read or modify /repo or /verif. The sandbox has no network. Run tests with plain `go` from inside the worktree, e.g. `cd /tmp/wt_{pid} && go test -vet=off -count=1 -timeout 300s ./headerfs/` (do NOT set GOSUMDB, GOTOOLCHAIN or GOFLAGS; always pass -timeout; never use `git stash` - it is shared between worktrees - use `git apply` and `git apply -R` with your patch file). The module /tmp/wt_{pid}/cache is a separate Go module (run its tests from inside /tmp/wt_{pid}/cache). Root-package tests take a few minutes; tests that need a btcd binary skip or fail identically without your change (check against the unmodified tree if in doubt).

Here is a semantic property the project is supposed to satisfy:

id: {p['id']}
title: {p['title']}
statement: {p['statement']}
quantified over: {p['quantifier']['text']}
anchored in files: {', '.join(p['anchors']['files'])}

TASK: produce 3 DIFFERENT realistic code changes ("mutants") to the non-test Go source of the project. Each must (a) compile, (b) leave the existing test suite of every package it touches passing (and the root package's if it touches root files), (c) BREAK the property above, and (d) need something specific to manifest - a particular interleaving, a crash or fault at a particular point, a multi-step sequence of operations, an unusual input, or two cooperating sites that each look fine alone - i.e. NOT something ordinary use or the existing tests would expose at once. Prefer small, plausible edits a careless developer could make (an off-by-one, a dropped check on one path, a reordered pair of statements, a wrong variable, a weakened comparison), spread over different functions.

For each mutant n = 1,2,3 create directory /tmp/wt_{pid}/mutants/<n>/ containing:
 - patch.diff : `git diff` of ONLY the source change (must apply with `git apply` from the repository root of an unmodified tree)
 - demo_test.go : an in-package Go test (say which package directory it must be copied into, with what file name) that demonstrates the violation: it FAILS with the patch applied and PASSES on the unmodified tree. It may use unexported identifiers, fault-injecting wrappers, goroutines, etc. Keep it deterministic and under 60 s.
 - meta.json : {{"property": "{p['id']}", "description": "...", "needs": "what is required for the violation to manifest", "demo_package_dir": "...", "demo_file_name": "..._test.go", "commands_run": ["..."], "existing_tests_pass_with_patch": true, "demo_fails_with_patch": true, "demo_passes_without_patch": true}}

You must actually verify all three facts for every mutant (apply the patch, run the existing tests of the touched packages, run the demo; revert, run the demo again). Drop a mutant and try another if an existing test kills it. When finished, make sure the worktree has NO source modifications left applied (`git checkout -- .`, remove any demo test files you copied into package directories); only the untracked mutants/ directory remains. Finish with a 10-line summary of the three mutants.""")

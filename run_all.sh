#!/bin/bash
# run_all.sh [--tier thorough]: every claimed check on the current /repo tree; prints one line per check and a verdict.
cd /verif
bad=0
for id in $(python3 -c "import json;print(' '.join(sorted(json.load(open('/verif/claims.json'))['checks'])))"); do
  out=$(./check $id "$@" 2>&1); rc=$?
  echo "$out" | grep -v "^KNOWN-FINDING" | tail -1
  if [ $rc -ne 0 ]; then bad=1; echo "$out" | grep "VIOLATION\|BROKEN\|failed obligation" | head -5; fi
done
[ $bad -eq 0 ] && echo "ALL-CHECKS-PASS" || echo "SOME-CHECK-FAILED"

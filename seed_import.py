#!/usr/bin/env python3
# Imports confirmed seeded changes from scratch worktrees into /verif/seeded/<id>/ and records which checks
# detect them. Applies each patch to /repo, runs every claimed check, and reverts (git checkout -- .).
import json, os, subprocess, sys, shutil, re
ids = sys.argv[1:]
props = [p['id'] for p in json.load(open('/verif/props.json'))]
def sh(cmd, **kw):
    return subprocess.run(cmd, shell=True, capture_output=True, text=True, **kw)
assert sh('git -C /repo status --porcelain').stdout.strip() == '', '/repo not clean'
for wid in ids:
    wt = f'/tmp/wt_{wid}'
    for n in (1, 2, 3):
        d = f'{wt}/mutants/{n}'
        if not os.path.exists(f'{d}/patch.diff'):
            continue
        name = f'{wid}_m{n}'
        out = f'/verif/seeded/{name}'
        if os.path.exists(f'{out}/meta.json') and 'detected_by' in json.load(open(f'{out}/meta.json')):
            continue
        # 1. confirm (results of an earlier confirmation run are reused)
        prev = open('/tmp/confirm_all.log').read() if os.path.exists('/tmp/confirm_all.log') else ''
        pms = list(re.finditer(r'== ' + re.escape(wt) + r' #' + str(n) + r' .*?\n((?:.*\n)*?)RESULT (.*)', prev))
        pm = pms[-1] if pms else None  # the latest confirmation run counts
        if pm:
            class R: pass
            r = R(); r.stdout = pm.group(1) + 'RESULT ' + pm.group(2)
        else:
            r = sh(f'/verif/confirm_seeded.sh {wt} {n}')
        m = re.search(r'RESULT demo_with_patch_exit=(\d+) existing_tests_exit=(\d+) demo_without_patch_exit=(\d+)', r.stdout)
        if not m:
            print(name, 'confirm failed', r.stdout[-300:]); continue
        with_, existing, without = map(int, m.groups())
        btcd_only = bool(re.search(r'--- FAIL', r.stdout)) and all(t in ('TestNeutrinoSyncWithHeadersImport','TestNeutrinoImportThenP2PSync','TestNeutrinoSyncWithoutHeadersImport','TestHandleHeaders') for t in re.findall(r'--- FAIL: (\w+)', r.stdout))
        confirmed = with_ != 0 and without == 0 and (existing == 0 or btcd_only)
        if not confirmed:
            print(name, 'NOT CONFIRMED', m.groups()); continue
        # 2. detection
        if sh(f'git -C /repo apply --check {d}/patch.diff').returncode != 0:
            print(name, 'patch does not apply to /repo'); continue
        sh(f'git -C /repo apply {d}/patch.diff')
        detected, broken, obligations = [], [], {}
        try:
            touched = set(re.findall(r'^\+\+\+ b/(.*)$', open(f'{d}/patch.diff').read(), re.M))
            dirs = {os.path.dirname(t) for t in touched}
            rel = set()
            for dd in dirs:
                if dd.startswith('headerfs'): rel |= {'C07','C08','C01','C14'}
                elif dd.startswith('banman'): rel |= {'C13'}
                elif dd.startswith('cache'): rel |= {'C16'}
                elif dd.startswith('pushtx'): rel |= {'C15'}
                elif dd.startswith('blockntfns'): rel |= {'C11','C19'}
                elif dd.startswith('chainimport'): rel |= {'C14'}
                elif dd.startswith('query'): rel |= {'C12'}
                elif dd == '': rel |= {'C01','C02','C03','C05','C06','C09','C10','C11','C13','C19'}
            rel.add(wid.rstrip('bcdef'))
            if os.environ.get('SEED_FAST'):
                # fast mode: the property the change was seeded for plus every check that has a function under
                # contract whose name is the enclosing function of a hunk of the patch
                led = json.load(open('/verif/ledger.json'))['functions']
                names = set(re.findall(r'^@@ .*@@ func (?:\([^)]*\) )?([A-Za-z0-9_]+)', open(f'{d}/patch.diff').read(), re.M))
                fast = {wid.rstrip('bcdef')}
                for pid, fns in led.items():
                    for fk in fns:
                        base = fk.split('.')[-1].split('$')[0]
                        if base in names:
                            fast.add(pid)
                rel = fast
            for pid in [x for x in props if x in rel]:
                rr = sh(f'cd /verif && ./check {pid} --no-evidence')
                if rr.returncode == 1 and 'VIOLATION' in rr.stdout:
                    detected.append(pid)
                    obligations[pid] = re.findall(r'failed obligation: (.*)', rr.stdout)
                elif rr.returncode == 2:
                    broken.append(pid)
        finally:
            sh('git -C /repo checkout -- .')
        os.makedirs(out, exist_ok=True)
        shutil.copy(f'{d}/patch.diff', out); shutil.copy(f'{d}/demo_test.go', out)
        meta = json.load(open(f'{d}/meta.json'))
        meta.update({'seeded_for': wid.rstrip('bcdef'), 'confirmed_by_builder': {'demo_fails_with_patch': True, 'demo_passes_without_patch': True,
            'existing_stable_tests_pass_with_patch': True, 'note': 'confirm_seeded.sh in the scratch worktree; root-package failures limited to the four btcd-dependent tests that are not in the baseline' if btcd_only else 'confirm_seeded.sh in the scratch worktree'},
            'checks_run': sorted(rel & set(props)), 'detected_by': detected, 'failed_obligations': obligations, 'checks_undecided_exit2': broken})
        json.dump(meta, open(f'{out}/meta.json', 'w'), indent=1)
        print(name, 'detected_by', detected, 'exit2', broken, flush=True)

package neutrino

// Replay for C03 (D15): a cfheaders message that chains from the committed filter tip but carries fewer filter hashes
// than there are blocks up to its stop hash. writeCFHeadersMsg appends the short batch and records the stop height as
// the new filter tip: the filter header store no longer tracks the block at the same height.

import (
	"testing"
	"time"

	"github.com/btcsuite/btcd/blockchain"
	"github.com/btcsuite/btcd/chaincfg/v2"
	"github.com/btcsuite/btcd/chainhash/v2"
	"github.com/btcsuite/btcd/wire/v2"
	"github.com/lightninglabs/neutrino/headerfs"
)

func replayMineOn(t *testing.T, parent *wire.BlockHeader, ts time.Time, bits uint32) *wire.BlockHeader {
	h := &wire.BlockHeader{Version: 4, PrevBlock: parent.BlockHash(), Timestamp: ts, Bits: bits}
	target := blockchain.CompactToBig(bits)
	for n := uint32(0); n < 1<<24; n++ {
		h.Nonce = n
		hash := h.BlockHash()
		if blockchain.HashToBig(&hash).Cmp(target) <= 0 {
			return h
		}
	}
	t.Fatal("no nonce found")
	return nil
}

func TestReplayShortCFHeaders(t *testing.T) {
	bm, blocks, filters, err := setupBlockManager(t)
	if err != nil {
		t.Fatal(err)
	}
	go func() {
		for range bm.blockNtfnChan {
		}
	}()
	prev := &chaincfg.SimNetParams.GenesisBlock.Header
	now := time.Now().Truncate(time.Second).Add(-time.Hour)
	var batch []headerfs.BlockHeader
	for h := uint32(1); h <= 10; h++ {
		hdr := replayMineOn(t, prev, now.Add(time.Duration(h)*time.Second), chaincfg.SimNetParams.PowLimitBits)
		batch = append(batch, headerfs.BlockHeader{BlockHeader: hdr, Height: h})
		prev = hdr
	}
	if err := blocks.WriteHeaders(batch...); err != nil {
		t.Fatal(err)
	}
	tip, tipH, err := filters.ChainTip()
	if err != nil || tipH != 0 {
		t.Fatalf("unexpected filter tip %d %v", tipH, err)
	}
	stop := batch[9].BlockHeader.BlockHash()
	msg := &wire.MsgCFHeaders{
		FilterType:       wire.GCSFilterRegular,
		StopHash:         stop,
		PrevFilterHeader: *tip,
	}
	for i := 0; i < 5; i++ { // five hashes for ten blocks
		h := chainhash.Hash{byte(i + 1)}
		msg.FilterHashes = append(msg.FilterHashes, &h)
	}
	if _, _, err := bm.writeCFHeadersMsg(msg, filters); err != nil {
		t.Skipf("the short message was refused (%v): nothing was committed", err)
	}
	_, fh, err := filters.ChainTip()
	if err != nil {
		t.Fatalf("filter store tip unreadable after the write: %v", err)
	}
	for h := uint32(1); h <= fh; h++ {
		if _, err := filters.FetchHeaderByHeight(h); err != nil {
			t.Fatalf("filter tip is %d but the filter header at height %d cannot be read: %v", fh, h, err)
		}
	}
	if fh != 5 {
		t.Fatalf("five filter headers were committed but the filter tip is %d", fh)
	}
}

package neutrino

// Replay for C03 (D13): a basic block filter that omits the output script of the coinbase transaction. BIP-158
// filters contain every output script (except OP_RETURNs) including the coinbase outputs, so such a filter is
// provably inconsistent with the block and VerifyBasicBlockFilter must refuse it.

import (
	"testing"

	"github.com/btcsuite/btcd/btcutil/v2"
	"github.com/btcsuite/btcd/btcutil/v2/gcs"
	"github.com/btcsuite/btcd/btcutil/v2/gcs/builder"
	"github.com/btcsuite/btcd/txscript/v2"
	"github.com/btcsuite/btcd/wire/v2"
)

func TestReplayFilterOmitsCoinbaseOutput(t *testing.T) {
	coinbaseScript := []byte{
		txscript.OP_DUP, txscript.OP_HASH160, txscript.OP_DATA_20,
		1, 2, 3, 4, 5, 6, 7, 8, 9, 10, 11, 12, 13, 14, 15, 16, 17, 18, 19, 20,
		txscript.OP_EQUALVERIFY, txscript.OP_CHECKSIG,
	}
	otherScript := []byte{
		txscript.OP_DUP, txscript.OP_HASH160, txscript.OP_DATA_20,
		21, 22, 23, 24, 25, 26, 27, 28, 29, 30, 31, 32, 33, 34, 35, 36, 37, 38, 39, 40,
		txscript.OP_EQUALVERIFY, txscript.OP_CHECKSIG,
	}
	block := &wire.MsgBlock{
		Header: wire.BlockHeader{MerkleRoot: [32]byte{9, 9, 9}},
		Transactions: []*wire.MsgTx{
			{ // coinbase
				Version: 2,
				TxIn:    []*wire.TxIn{{}},
				TxOut:   []*wire.TxOut{{Value: 50, PkScript: coinbaseScript}},
			},
			{
				Version: 2,
				TxIn:    []*wire.TxIn{{}},
				TxOut:   []*wire.TxOut{{Value: 1, PkScript: otherScript}},
			},
		},
	}
	blockHash := block.BlockHash()
	key := builder.DeriveKey(&blockHash)

	// The dishonest filter: everything except the coinbase output script.
	filter, err := gcs.BuildGCSFilter(
		builder.DefaultP, builder.DefaultM, key, [][]byte{otherScript},
	)
	if err != nil {
		t.Fatal(err)
	}
	// Harness sanity: the filter really does not match the coinbase script (no false positive).
	if m, err := filter.Match(key, coinbaseScript); err != nil || m {
		t.Skipf("harness: false positive or error (%v, %v)", m, err)
	}

	if _, err := VerifyBasicBlockFilter(filter, btcutil.NewBlock(block)); err == nil {
		t.Fatalf("REPLAY-VIOLATION: a filter omitting the coinbase output script was accepted")
	}
}

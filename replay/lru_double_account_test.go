package lru

// Replay for C16 (D11): LoadAndDelete claims its element from the index before it takes the lock. If an eviction
// removes that element from the list in between, the element's size is subtracted a second time: Size() no longer
// equals the sum of the resident values.

import (
	"sync"
	"testing"
	"time"
)

type replayVal struct {
	n     uint64
	gate  chan struct{} // when non-nil, Size blocks on it once armed
	armed *bool
	mu    *sync.Mutex
	hit   chan struct{}
}

func (v *replayVal) Size() (uint64, error) {
	if v.gate != nil {
		v.mu.Lock()
		a := *v.armed
		*v.armed = false
		v.mu.Unlock()
		if a {
			close(v.hit)
			<-v.gate
		}
	}
	return v.n, nil
}

func TestReplayLoadAndDeleteVsEviction(t *testing.T) {
	c := NewCache[int, *replayVal](10)
	armed := false
	var mu sync.Mutex
	victim := &replayVal{n: 6, gate: make(chan struct{}), armed: &armed, mu: &mu, hit: make(chan struct{})}
	if _, err := c.Put(1, victim); err != nil {
		t.Fatal(err)
	}
	// the next Size() call on the victim (made by evict, under the lock) blocks
	mu.Lock()
	armed = true
	mu.Unlock()

	done := make(chan struct{})
	go func() {
		defer close(done)
		// needs 6 of 10: evicts key 1
		if _, err := c.Put(2, &replayVal{n: 6}); err != nil {
			t.Error(err)
		}
	}()
	select {
	case <-victim.hit:
	case <-time.After(5 * time.Second):
		t.Skip("eviction did not reach the victim's Size call: not the replayed schedule")
	}
	// the evicting Put now holds the lock; LoadAndDelete claims key 1 from the index and waits for the lock
	del := make(chan struct{})
	go func() {
		defer close(del)
		c.LoadAndDelete(1)
	}()
	time.Sleep(200 * time.Millisecond)
	close(victim.gate)
	<-done
	<-del

	if got := c.Len(); got != 1 {
		t.Fatalf("expected exactly the second value to be resident, Len() = %d", got)
	}
	if got := c.Size(); got != 6 {
		t.Fatalf("one value of size 6 is resident but Size() reports %d", got)
	}
}

package chainimport

// Replay for C14 (D19): a batch of block headers whose FIRST header fails the context-free checks (no proof of work)
// while the second one is a proper child of it. ValidateBatch must refuse the batch: the first header of a batch is
// never the "current" header of a validated pair, so nothing else checks it.

import (
	"testing"
	"time"

	"github.com/btcsuite/btcd/blockchain"
	"github.com/btcsuite/btcd/chaincfg/v2"
	"github.com/btcsuite/btcd/wire/v2"
	"github.com/lightninglabs/neutrino/headerfs"
	"github.com/stretchr/testify/mock"
)

func replayMine(h *wire.BlockHeader, valid bool) {
	target := blockchain.CompactToBig(h.Bits)
	for n := uint32(0); ; n++ {
		h.Nonce = n
		hash := h.BlockHash()
		ok := blockchain.HashToBig(&hash).Cmp(target) <= 0
		if ok == valid {
			return
		}
	}
}

func TestReplayFirstHeaderOfBatchUnchecked(t *testing.T) {
	params := chaincfg.SimNetParams
	genesis := params.GenesisBlock.Header

	store := &headerfs.MockBlockHeaderStore{}
	store.On("FetchHeaderByHeight", uint32(0)).Return(&genesis, nil)
	store.On("FetchHeaderByHeight", mock.Anything).Return(
		(*wire.BlockHeader)(nil), headerfs.ErrHeightNotFound,
	)

	v := newBlockHeadersImportSourceValidator(
		params, store, blockchain.BFNone, nil,
	).(*blockHeadersImportSourceValidator)

	// h1: child of genesis by hash, but without proof of work.
	h1 := wire.BlockHeader{
		Version:   0x20000000,
		PrevBlock: genesis.BlockHash(),
		Timestamp: genesis.Timestamp.Add(21 * time.Minute),
		Bits:      params.PowLimitBits,
	}
	replayMine(&h1, false)

	// h2: a proper child of h1 (valid proof of work, minimum difficulty allowed after 20 minutes).
	h2 := wire.BlockHeader{
		Version:   0x20000000,
		PrevBlock: h1.BlockHash(),
		Timestamp: h1.Timestamp.Add(21 * time.Minute),
		Bits:      params.PowLimitBits,
	}
	replayMine(&h2, true)

	mk := func(h wire.BlockHeader, height uint32) Header {
		hdr := h
		return &blockHeader{BlockHeader: headerfs.BlockHeader{
			BlockHeader: &hdr, Height: height,
		}}
	}

	// Sanity of the harness: h1 alone is refused, h2 alone is accepted.
	if err := v.ValidateSingle(mk(h1, 1)); err == nil {
		t.Fatalf("harness: h1 should fail the context-free checks")
	}
	if err := v.ValidateSingle(mk(h2, 2)); err != nil {
		t.Fatalf("harness: h2 should pass the context-free checks: %v", err)
	}

	err := v.ValidateBatch([]Header{mk(h1, 1), mk(h2, 2)})
	if err == nil {
		t.Fatalf("REPLAY-VIOLATION: a batch whose first header has no proof of work was accepted")
	}
}

package neutrino

// Replay for C10 (D21): two GetUtxo requests for the same outpoint with different start heights in one batch. The
// block at the first request's start height creates the output; when the second request joins at a later height,
// its (unsuccessful) look-up of the creating transaction overwrites the initial output recorded for the first one, so
// the first request - whose start block does create the output - is answered with an empty report.

import (
	"testing"

	"github.com/btcsuite/btcd/chainhash/v2"
	"github.com/btcsuite/btcd/wire/v2"
)

func TestReplaySameOutpointTwoStartHeights(t *testing.T) {
	hash, _ := chainhash.NewHashFromStr("e9a66845e05d5abc0ad04ec80f774a7e585c6e8db975962d069a522137b80c1d")
	outpoint := wire.OutPoint{Hash: *hash, Index: 0}
	pkScript := []byte("76a91439aa3d569e06a1d7926dc4be1193c99bf2eb9ee08")
	mk := func(h uint32) *GetUtxoRequest {
		return &GetUtxoRequest{
			Input:       &InputWithScript{OutPoint: outpoint, PkScript: pkScript},
			BirthHeight: h,
			resultChan:  make(chan *getUtxoResult, 1),
		}
	}
	r1, r2 := mk(100000), mk(100001)

	rep := newBatchSpendReporter()
	// Block 100000 creates the output; r1 starts there.
	rep.ProcessBlock(&Block100000, []*GetUtxoRequest{r1}, 100000)
	if rep.initialTxns[outpoint] == nil || rep.initialTxns[outpoint].Output == nil {
		t.Fatalf("harness: block 100000 should create the output")
	}
	// r2 joins one block later (any block that does not contain the transaction).
	rep.ProcessBlock(&Block99999, []*GetUtxoRequest{r2}, 100001)
	rep.NotifyUnspentAndUnfound()

	res := <-r1.resultChan
	if res.err != nil {
		t.Fatalf("harness: unexpected error %v", res.err)
	}
	if res.report == nil || res.report.Output == nil {
		t.Fatalf("REPLAY-VIOLATION: the request whose start block creates the output got an empty report")
	}
}

package neutrino

// Replay for C03 (D16): a checkpointed cfheaders request spans two checkpoint intervals. A response whose filter
// hashes chain from the previous checkpoint to the last checkpoint of the range, but whose header at the intermediate
// checkpoint height differs from the agreed (and hard-coded-checked) checkpoint there, is delivered to the writer.

import (
	"testing"

	"github.com/btcsuite/btcd/chainhash/v2"
	"github.com/btcsuite/btcd/wire/v2"
	"github.com/lightninglabs/neutrino/banman"
)

func TestReplayIntermediateCheckpointNotCompared(t *testing.T) {
	const n = 2 * wire.CFCheckptInterval
	genesis := chainhash.Hash{9}
	resp := &wire.MsgCFHeaders{
		FilterType:       wire.GCSFilterRegular,
		StopHash:         chainhash.Hash{7},
		PrevFilterHeader: genesis,
	}
	last := genesis
	var mid chainhash.Hash
	for i := 0; i < n; i++ {
		h := chainhash.Hash{byte(i), byte(i >> 8), 1}
		resp.FilterHashes = append(resp.FilterHashes, &h)
		last = chainhash.DoubleHashH(append(h[:], last[:]...))
		if i+1 == wire.CFCheckptInterval {
			mid = last
		}
	}
	agreedMid := chainhash.Hash{0xaa} // what the checkpoint list says for the intermediate height
	if agreedMid == mid {
		t.Fatal("harness: pick another value")
	}
	end := last
	headerChan := make(chan *wire.MsgCFHeaders, 1)
	q := &checkpointedCFHeadersQuery{
		blockMgr: &blockManager{
			cfg: &blockManagerCfg{
				BanPeer: func(string, banman.Reason) error { return nil },
			},
			genesisHeader: genesis,
			quit:          make(chan struct{}),
		},
		checkpoints: []*chainhash.Hash{&agreedMid, &end},
		stopHashes:  map[chainhash.Hash]uint32{resp.StopHash: 0},
		headerChan:  headerChan,
	}
	req := wire.NewMsgGetCFHeaders(wire.GCSFilterRegular, 1, &resp.StopHash)
	p := q.handleResponse(req, resp, "peer")
	if p.Finished || len(headerChan) != 0 {
		t.Fatalf("REPLAY-VIOLATION: response whose header at height %d is %v, not the checkpoint %v, "+
			"was delivered to the writer", wire.CFCheckptInterval, mid, agreedMid)
	}
}

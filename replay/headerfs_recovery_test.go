package headerfs

// Replay harness (injected with go test -overlay, never written into the repository):
// crash states of the block header file are reconstructed on real files + bbolt and the real constructor is run.

import (
	"os"
	"path/filepath"
	"testing"
	"time"

	"github.com/btcsuite/btcd/chaincfg/v2"
	"github.com/btcsuite/btcd/wire/v2"
	"github.com/btcsuite/btcwallet/walletdb"
	_ "github.com/btcsuite/btcwallet/walletdb/bdb"
)

func vrfOpen(t *testing.T, dir string) (walletdb.DB, BlockHeaderStore) {
	db, err := walletdb.Create("bdb", filepath.Join(dir, "test.db"), true, time.Second*10, false)
	if err != nil {
		db, err = walletdb.Open("bdb", filepath.Join(dir, "test.db"), true, time.Second*10, false)
	}
	if err != nil {
		t.Fatalf("db: %v", err)
	}
	s, err := NewBlockHeaderStore(dir, db, &chaincfg.SimNetParams)
	if err != nil {
		db.Close()
		t.Fatalf("VIOLATION-REPRODUCED: store cannot be opened: %v", err)
	}
	return db, s
}

func vrfHeaders(prev *wire.BlockHeader, startHeight uint32, n int) []BlockHeader {
	var out []BlockHeader
	p := prev.BlockHash()
	for i := 0; i < n; i++ {
		h := &wire.BlockHeader{Version: 1, PrevBlock: p, Nonce: uint32(1000 + int(startHeight) + i), Timestamp: time.Unix(1700000000+int64(startHeight)+int64(i), 0)}
		out = append(out, BlockHeader{BlockHeader: h, Height: startHeight + uint32(i)})
		p = h.BlockHash()
	}
	return out
}

// TestReplayTornTail: a torn append (17 stray bytes) followed by a restart must not shift later entries.
func TestReplayTornTail(t *testing.T) {
	dir := t.TempDir()
	db, s := vrfOpen(t, dir)
	hdrs := vrfHeaders(&chaincfg.SimNetParams.GenesisBlock.Header, 1, 5)
	if err := s.WriteHeaders(hdrs...); err != nil {
		t.Fatal(err)
	}
	db.Close()
	f, err := os.OpenFile(filepath.Join(dir, "block_headers.bin"), os.O_WRONLY|os.O_APPEND, 0644)
	if err != nil {
		t.Fatal(err)
	}
	f.Write(make([]byte, 17))
	f.Close()
	db, s = vrfOpen(t, dir)
	defer db.Close()
	next := vrfHeaders(hdrs[4].BlockHeader, 6, 1)
	if err := s.WriteHeaders(next...); err != nil {
		t.Fatal(err)
	}
	got, err := s.FetchHeaderByHeight(6)
	if err != nil {
		t.Fatalf("VIOLATION-REPRODUCED: header 6 unreadable after torn tail: %v", err)
	}
	if got.BlockHash() != next[0].BlockHash() {
		t.Fatalf("VIOLATION-REPRODUCED: header at height 6 is shifted/garbled after a torn append")
	}
	tip, h, err := s.ChainTip()
	if err != nil || h != 6 || tip.BlockHash() != next[0].BlockHash() {
		t.Fatalf("VIOLATION-REPRODUCED: tip mismatch after torn append: %v %d", err, h)
	}
}

// TestReplayFileBehindIndex: a crash between the file truncation and the index update of a rollback.
func TestReplayFileBehindIndex(t *testing.T) {
	dir := t.TempDir()
	db, s := vrfOpen(t, dir)
	hdrs := vrfHeaders(&chaincfg.SimNetParams.GenesisBlock.Header, 1, 5)
	if err := s.WriteHeaders(hdrs...); err != nil {
		t.Fatal(err)
	}
	db.Close()
	p := filepath.Join(dir, "block_headers.bin")
	fi, _ := os.Stat(p)
	if err := os.Truncate(p, fi.Size()-3*80); err != nil {
		t.Fatal(err)
	}
	db, s = vrfOpen(t, dir)
	defer db.Close()
	if _, _, err := s.ChainTip(); err != nil {
		t.Fatalf("VIOLATION-REPRODUCED: tip unreadable: %v", err)
	}
}

// TestReplayUnindexedTail: a crash between the file append and the index commit leaves whole headers that
// must be removed on restart.
func TestReplayUnindexedTail(t *testing.T) {
	dir := t.TempDir()
	db, s := vrfOpen(t, dir)
	hdrs := vrfHeaders(&chaincfg.SimNetParams.GenesisBlock.Header, 1, 5)
	if err := s.WriteHeaders(hdrs...); err != nil {
		t.Fatal(err)
	}
	db.Close()
	f, _ := os.OpenFile(filepath.Join(dir, "block_headers.bin"), os.O_WRONLY|os.O_APPEND, 0644)
	extra := vrfHeaders(hdrs[4].BlockHeader, 6, 2)
	for _, e := range extra {
		e.Serialize(f)
	}
	f.Close()
	db, s = vrfOpen(t, dir)
	defer db.Close()
	if _, err := s.FetchHeaderByHeight(6); err == nil {
		t.Fatalf("VIOLATION-REPRODUCED: unindexed header still present past the tip after restart")
	}
	next := vrfHeaders(hdrs[4].BlockHeader, 6, 1)
	next[0].Nonce = 77
	if err := s.WriteHeaders(next...); err != nil {
		t.Fatal(err)
	}
	got, err := s.FetchHeaderByHeight(6)
	if err != nil || got.BlockHash() != next[0].BlockHash() {
		t.Fatalf("VIOLATION-REPRODUCED: header 6 wrong after recovery: %v", err)
	}
}

package neutrino

// Replay for C09 (D10): the chain is reorganised while a rescan is catching up by height. The callbacks the
// caller sees must still form a walk of the block tree: every connected block is the child of the block the
// caller was last told is current, every disconnect removes exactly that block.

import (
	"testing"
	"time"

	"github.com/btcsuite/btcd/btcutil/v2"
	"github.com/btcsuite/btcd/chainhash/v2"
	"github.com/btcsuite/btcd/rpcclient"
	"github.com/btcsuite/btcd/wire/v2"
	"github.com/lightninglabs/neutrino/headerfs"
)

type replayWalkEv struct {
	connected bool
	header    wire.BlockHeader
	height    int32
}

func TestReplayReorgDuringCatchUp(t *testing.T) {
	evs := make(chan replayWalkEv)
	quit := make(chan struct{})
	chain := newMockChainSource(5) // heights 0..4
	handlers := rpcclient.NotificationHandlers{
		OnFilteredBlockConnected: func(height int32, header *wire.BlockHeader, _ []*btcutil.Tx) {
			select {
			case evs <- replayWalkEv{true, *header, height}:
			case <-quit:
			}
		},
		OnFilteredBlockDisconnected: func(height int32, header *wire.BlockHeader) {
			select {
			case evs <- replayWalkEv{false, *header, height}:
			case <-quit:
			}
		},
	}
	genesis := *chain.ChainParams().GenesisHash
	rescan := NewRescan(
		chain, NotificationHandlers(handlers), QuitChan(quit),
		StartBlock(&headerfs.BlockStamp{Hash: genesis, Height: 0}),
	)
	errChan := rescan.Start()
	defer func() {
		close(quit)
		select {
		case <-errChan:
		case <-time.After(2 * time.Second):
		}
	}()

	cur := *chain.ChainParams().GenesisHash
	curHeight := int32(0)
	step := func(ev replayWalkEv) {
		t.Helper()
		if ev.connected {
			if ev.header.PrevBlock != cur || ev.height != curHeight+1 {
				t.Fatalf("block %v at height %d announced as connected, but its parent %v is not the current block %v (height %d)",
					ev.header.BlockHash(), ev.height, ev.header.PrevBlock, cur, curHeight)
			}
			cur, curHeight = ev.header.BlockHash(), ev.height
			return
		}
		if ev.header.BlockHash() != cur || ev.height != curHeight {
			t.Fatalf("block %v at height %d announced as disconnected, but the current block is %v (height %d)",
				ev.header.BlockHash(), ev.height, cur, curHeight)
		}
		cur, curHeight = ev.header.PrevBlock, ev.height-1
	}
	recv := func() replayWalkEv {
		t.Helper()
		select {
		case ev := <-evs:
			return ev
		case <-time.After(3 * time.Second):
			t.Fatal("no callback")
		}
		return replayWalkEv{}
	}

	step(recv()) // block 1
	// The rescan is now blocked inside the callback for block 2. Reorganise: drop 2..4, add 2', 3', 4', 5'.
	time.Sleep(100 * time.Millisecond)
	chain.rollbackToHeight(1, false)
	var tipHash chainhash.Hash
	for i := 0; i < 4; i++ {
		chain.mu.Lock()
		prev := chain.bestBlock.Hash
		h := chain.bestBlock.Height + 1
		chain.mu.Unlock()
		hdr := &wire.BlockHeader{
			PrevBlock: prev,
			Nonce:     7777, // differs from the original branch
			Timestamp: chain.ChainParams().GenesisBlock.Header.Timestamp.Add(time.Duration(h) * 10 * time.Minute),
		}
		tipHash = chain.addNewBlockWithHeader(hdr, false).Hash
	}
	// Every callback from here on must keep the walk consistent, until the new tip is reached.
	deadline := time.After(5 * time.Second)
	for cur != tipHash {
		select {
		case ev := <-evs:
			step(ev)
		case <-deadline:
			t.Fatalf("the rescan did not reach the new tip %v; current block %v at height %d", tipHash, cur, curHeight)
		}
	}
}

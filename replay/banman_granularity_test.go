package banman

// Replay harness for the known finding on ban expiry granularity (injected with go test -overlay).

import (
	"net"
	"path/filepath"
	"testing"
	"time"

	"github.com/btcsuite/btcwallet/walletdb"
	_ "github.com/btcsuite/btcwallet/walletdb/bdb"
)

func TestReplayBanGranularity(t *testing.T) {
	db, err := walletdb.Create("bdb", filepath.Join(t.TempDir(), "b.db"), true, 10*time.Second, false)
	if err != nil {
		t.Fatal(err)
	}
	defer db.Close()
	s, err := NewStore(db)
	if err != nil {
		t.Fatal(err)
	}
	ipNet := &net.IPNet{IP: net.ParseIP("10.1.2.3").To4(), Mask: net.CIDRMask(32, 32)}
	// wait for a second boundary
	for time.Now().Nanosecond() > 5_000_000 {
		time.Sleep(200 * time.Microsecond)
	}
	if err := s.BanIPNet(ipNet, ExceededBanThreshold, 900*time.Millisecond); err != nil {
		t.Fatal(err)
	}
	st, err := s.Status(ipNet)
	if err != nil {
		t.Fatal(err)
	}
	if !st.Banned {
		t.Fatalf("VIOLATION-REPRODUCED: a 900ms ban is reported not banned immediately after it was issued")
	}
}

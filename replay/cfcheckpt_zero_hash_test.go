package neutrino

// Replay for C03 (D25): two peers serve filter-header checkpoint lists that disagree at index 0, one of them serving
// the all-zero hash there. checkCFCheckptSanity uses the zero hash as "no reference value yet", so when the zero list
// is visited first the disagreement goes unnoticed and the lists are reported as agreeing.

import (
	"fmt"
	"testing"

	"github.com/btcsuite/btcd/chainhash/v2"
	"github.com/lightninglabs/neutrino/headerfs"
)

func TestReplayZeroCheckpointHidesMismatch(t *testing.T) {
	store := &headerfs.MockFilterHeaderStore{}
	store.On("ChainTip").Return(&chainhash.Hash{}, uint32(0), nil)

	zero := chainhash.Hash{}
	other := chainhash.Hash{1, 2, 3}
	// Go randomises map iteration: try enough fresh maps to see both visiting orders.
	for trial := 0; trial < 200; trial++ {
		cp := map[string][]*chainhash.Hash{
			fmt.Sprintf("a%d", trial): {&zero},
			fmt.Sprintf("b%d", trial): {&other},
		}
		diff, err := checkCFCheckptSanity(cp, store)
		if err != nil {
			t.Fatalf("harness: %v", err)
		}
		if diff == -1 {
			t.Fatalf("REPLAY-VIOLATION: trial %d: lists disagreeing at index 0 reported as agreeing", trial)
		}
	}
}

package neutrino

// Replay for C03: two peers disagree about a filter hash and one of them serves the all-zero hash. The mismatch
// check uses the zero hash as "nothing seen yet", so depending on map iteration order the conflict is not noticed
// and no peer is examined.

import (
	"testing"

	"github.com/btcsuite/btcd/chainhash/v2"
	"github.com/btcsuite/btcd/wire/v2"
)

func TestReplayZeroFilterHashHidesMismatch(t *testing.T) {
	zero := chainhash.Hash{}
	other := chainhash.Hash{1, 2, 3}
	for i := 0; i < 400; i++ {
		headers := map[string]*wire.MsgCFHeaders{
			"a": {FilterHashes: []*chainhash.Hash{&zero}},
			"b": {FilterHashes: []*chainhash.Hash{&other}},
		}
		if !checkForCFHeaderMismatch(headers, 0) {
			t.Fatalf("peers a and b serve different filter hashes at position 0 but no mismatch is reported (attempt %d)", i)
		}
	}
}

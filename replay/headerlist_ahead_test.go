package neutrino

// Replay for C01 (D8): a headers message whose first header is valid and whose second is not leaves the in-memory
// header list one ahead of the store; a later valid child of that first header (from any peer) is then written at
// the wrong position: height, hash and tip lookups disagree and the stored chain is no longer linked.

import (
	"testing"
	"time"

	"github.com/btcsuite/btcd/blockchain"
	"github.com/btcsuite/btcd/chaincfg/v2"
	"github.com/btcsuite/btcd/peer"
	"github.com/btcsuite/btcd/wire/v2"
)

func replayMineChild(t *testing.T, parent *wire.BlockHeader, ts time.Time, bits uint32) *wire.BlockHeader {
	h := &wire.BlockHeader{Version: 4, PrevBlock: parent.BlockHash(), Timestamp: ts, Bits: bits}
	target := blockchain.CompactToBig(bits)
	for n := uint32(0); n < 1<<24; n++ {
		h.Nonce = n
		hash := h.BlockHash()
		if blockchain.HashToBig(&hash).Cmp(target) <= 0 {
			return h
		}
	}
	t.Fatal("no nonce found")
	return nil
}

func TestReplayHeaderListAheadOfStore(t *testing.T) {
	bm, store, _, err := setupBlockManager(t)
	if err != nil {
		t.Fatal(err)
	}
	peerA, err := peer.NewOutboundPeer(&peer.Config{}, "a:1")
	if err != nil {
		t.Fatal(err)
	}
	peerB, err := peer.NewOutboundPeer(&peer.Config{}, "b:1")
	if err != nil {
		t.Fatal(err)
	}
	genesis := &chaincfg.SimNetParams.GenesisBlock.Header
	bits := chaincfg.SimNetParams.PowLimitBits
	now := time.Now().Truncate(time.Second)

	p1 := replayMineChild(t, genesis, now.Add(-2*time.Minute), bits)
	// p2bad: linked to p1 but far in the future, fails the sanity check
	p2bad := replayMineChild(t, p1, now.Add(48*time.Hour), bits)
	p2 := replayMineChild(t, p1, now.Add(-time.Minute), bits)

	bm.handleHeadersMsg(&headersMsg{
		headers: &wire.MsgHeaders{Headers: []*wire.BlockHeader{p1, p2bad}},
		peer:    &ServerPeer{Peer: peerA},
	})
	_, h0, err := store.ChainTip()
	if err != nil || h0 != 0 {
		t.Skipf("the first message already changed the store (tip %d, err %v): not the replayed scenario", h0, err)
	}
	bm.handleHeadersMsg(&headersMsg{
		headers: &wire.MsgHeaders{Headers: []*wire.BlockHeader{p2}},
		peer:    &ServerPeer{Peer: peerB},
	})

	tip, tipH, err := store.ChainTip()
	if err != nil {
		t.Fatalf("tip lookup fails after two headers messages: %v", err)
	}
	for h := uint32(1); h <= tipH; h++ {
		cur, err := store.FetchHeaderByHeight(h)
		if err != nil {
			t.Fatalf("height %d <= tip %d unreadable: %v", h, tipH, err)
		}
		prev, err := store.FetchHeaderByHeight(h - 1)
		if err != nil {
			t.Fatal(err)
		}
		if cur.PrevBlock != prev.BlockHash() {
			t.Fatalf("stored header at height %d does not name the header at height %d as its predecessor", h, h-1)
		}
		hash := cur.BlockHash()
		_, byHash, err := store.FetchHeader(&hash)
		if err != nil || byHash != h {
			t.Fatalf("lookup by hash of the header stored at height %d gives height %d (err %v)", h, byHash, err)
		}
	}
	if got, err := store.FetchHeaderByHeight(tipH); err != nil || got.BlockHash() != tip.BlockHash() {
		t.Fatalf("tip and by-height lookups disagree at height %d", tipH)
	}
}

package chainimport

// Replay for C14 (D7): an import whose files start at height 1 (not 0), against real header stores. After a
// successful Import every imported height must hold the file's header for that height in both stores.

import (
	"context"
	"encoding/hex"
	"os"
	"path/filepath"
	"testing"
	"time"

	"github.com/btcsuite/btcd/blockchain"
	"github.com/btcsuite/btcd/chaincfg/v2"
	"github.com/btcsuite/btcd/wire/v2"
	"github.com/btcsuite/btcwallet/walletdb"
	_ "github.com/btcsuite/btcwallet/walletdb/bdb"
	"github.com/lightninglabs/neutrino/headerfs"
)

func replayWriteImportFile(t *testing.T, dir, name string, hT headerfs.HeaderType, hdrs []string,
	start uint32) string {

	p := filepath.Join(dir, name)
	if err := os.WriteFile(p, nil, 0o644); err != nil {
		t.Fatal(err)
	}
	if err := AddHeadersImportMetadata(p, wire.SimNet, 0, hT, start); err != nil {
		t.Fatal(err)
	}
	f, err := os.OpenFile(p, os.O_RDWR|os.O_APPEND, 0o644)
	if err != nil {
		t.Fatal(err)
	}
	defer f.Close()
	for _, h := range hdrs[start:] {
		b, err := hex.DecodeString(h)
		if err != nil {
			t.Fatal(err)
		}
		if _, err := f.Write(b); err != nil {
			t.Fatal(err)
		}
	}
	return p
}

func TestReplayImportFromNonZeroStart(t *testing.T) {
	dir := t.TempDir()
	db, err := walletdb.Create("bdb", filepath.Join(dir, "test.db"), true, time.Second*10, false)
	if err != nil {
		t.Fatal(err)
	}
	defer db.Close()
	b, err := headerfs.NewBlockHeaderStore(dir, db, &chaincfg.SimNetParams)
	if err != nil {
		t.Fatal(err)
	}
	f, err := headerfs.NewFilterHeaderStore(dir, db, headerfs.RegularFilter, &chaincfg.SimNetParams, nil)
	if err != nil {
		t.Fatal(err)
	}
	const start = 1
	bPath := replayWriteImportFile(t, dir, "blocks.bin", headerfs.Block, blockHdrs, start)
	fPath := replayWriteImportFile(t, dir, "filters.bin", headerfs.RegularFilter, filterHdrs, start)

	hI, err := NewHeadersImport(&ImportOptions{
		BlockHeadersSource:      bPath,
		FilterHeadersSource:     fPath,
		TargetBlockHeaderStore:  b,
		TargetFilterHeaderStore: f,
		TargetChainParams:       chaincfg.SimNetParams,
		WriteBatchSizePerRegion: 128,
		ValidationFlags:         blockchain.BFFastAdd,
	})
	if err != nil {
		t.Fatal(err)
	}
	if _, err := hI.Import(context.Background()); err != nil {
		t.Skipf("import refused the file (no success reported, nothing to compare): %v", err)
	}
	_, tip, err := b.ChainTip()
	if err != nil {
		t.Fatalf("block store unusable after a successful import: %v", err)
	}
	if tip != uint32(len(blockHdrs)-1) {
		t.Fatalf("import reported success but the block tip is %d, the file ends at %d", tip, len(blockHdrs)-1)
	}
	for h := uint32(start); h < uint32(len(blockHdrs)); h++ {
		want, err := constructBlkHdr(blockHdrs[h], h)
		if err != nil {
			t.Fatal(err)
		}
		got, err := b.FetchHeaderByHeight(h)
		if err != nil {
			t.Fatalf("height %d: %v", h, err)
		}
		if got.BlockHash() != want.BlockHeader.BlockHeader.BlockHash() {
			t.Fatalf("height %d holds header %v, the file's header for that height is %v", h, got.BlockHash(),
				want.BlockHeader.BlockHeader.BlockHash())
		}
		wantF, err := constructFilterHdr(filterHdrs[h], h)
		if err != nil {
			t.Fatal(err)
		}
		gotF, err := f.FetchHeaderByHeight(h)
		if err != nil {
			t.Fatalf("filter height %d: %v", h, err)
		}
		if *gotF != wantF.FilterHash {
			t.Fatalf("filter height %d holds %v, the file has %v", h, gotF, wantF.FilterHash)
		}
	}
}

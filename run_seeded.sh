#!/bin/sh
# usage: run_seeded.sh <patch.diff> <prop id>...   applies a seeded change to /repo, runs the checks, reverts
patch="$1"; shift
if [ -n "$(git -C /repo status --porcelain)" ]; then echo "refusing: /repo has uncommitted changes"; exit 3; fi
git -C /repo apply "$patch" || { echo "patch does not apply"; exit 3; }
for id in "$@"; do
  ./check "$id" --no-evidence 2>&1 | grep -E "^VIOLATION|^CHECK-BROKEN|^property=|failed obligation" | head -12
done
git -C /repo checkout -- .

package main

import (
	"fmt"
	"os"
	"strings"

	"golang.org/x/tools/go/packages"
	"golang.org/x/tools/go/ssa"
	"golang.org/x/tools/go/ssa/ssautil"
)

func main() {
	dir := os.Args[1]
	pat := os.Args[2]
	names := os.Args[3:]
	cfg := &packages.Config{Mode: packages.LoadAllSyntax, Dir: dir, BuildFlags: []string{"-tags=verif"}}
	pkgs, err := packages.Load(cfg, pat)
	if err != nil {
		panic(err)
	}
	if packages.PrintErrors(pkgs) > 0 {
		os.Exit(1)
	}
	prog, spkgs := ssautil.AllPackages(pkgs, ssa.InstantiateGenerics)
	prog.Build()
	for _, sp := range spkgs {
		if sp == nil {
			continue
		}
		all := ssautil.AllFunctions(prog)
		for fn := range all {
			if fn.Pkg != sp {
				continue
			}
			for _, n := range names {
				if strings.Contains(fn.String(), n) {
					fn.WriteTo(os.Stdout)
					fmt.Println()
				}
			}
		}
	}
}

package main

// Spec expression language: Go expression syntax plus
//   old(e)   e ==> e   e <==> e   forall x T, y U :: e   exists ...   $ghost   result
// parsed by a small precedence-climbing parser.

import (
	"fmt"
	"strings"
	"unicode"
)

type Expr interface{ String() string }

type (
	EIdent struct{ Name string }
	EInt   struct{ V string }
	EStr   struct{ V string }
	EBool  struct{ V bool }
	ENil   struct{}
	ESel   struct {
		X   Expr
		Sel string
	}
	EIndex struct{ X, I Expr }
	ESlice struct{ X, Lo, Hi Expr }
	ECall  struct {
		Fun  Expr
		Args []Expr
	}
	EUnary struct {
		Op string
		X  Expr
	}
	EBin struct {
		Op   string
		X, Y Expr
	}
	EQuant struct {
		Forall bool
		Vars   []QVar
		Body   Expr
		Trig   [][]Expr
	}
	EOld  struct{ X Expr }
	ECond struct{ C, T, F Expr } // ite(c,t,f)
	// ETypeLit is a type expression used as the first argument of some builtins
	ETypeLit struct{ T string }
)

type QVar struct {
	Name string
	Type string // type text
}

func (e *EIdent) String() string { return e.Name }
func (e *EInt) String() string   { return e.V }
func (e *EStr) String() string   { return fmt.Sprintf("%q", e.V) }
func (e *EBool) String() string  { return fmt.Sprint(e.V) }
func (e *ENil) String() string   { return "nil" }
func (e *ESel) String() string   { return e.X.String() + "." + e.Sel }
func (e *EIndex) String() string { return e.X.String() + "[" + e.I.String() + "]" }
func (e *ESlice) String() string {
	lo, hi := "", ""
	if e.Lo != nil {
		lo = e.Lo.String()
	}
	if e.Hi != nil {
		hi = e.Hi.String()
	}
	return e.X.String() + "[" + lo + ":" + hi + "]"
}
func (e *ECall) String() string {
	var a []string
	for _, x := range e.Args {
		a = append(a, x.String())
	}
	return e.Fun.String() + "(" + strings.Join(a, ", ") + ")"
}
func (e *EUnary) String() string { return e.Op + e.X.String() }
func (e *EBin) String() string   { return "(" + e.X.String() + " " + e.Op + " " + e.Y.String() + ")" }
func (e *EQuant) String() string {
	q := "exists"
	if e.Forall {
		q = "forall"
	}
	var vs []string
	for _, v := range e.Vars {
		vs = append(vs, v.Name+" "+v.Type)
	}
	return "(" + q + " " + strings.Join(vs, ", ") + " :: " + e.Body.String() + ")"
}
func (e *EOld) String() string { return "old(" + e.X.String() + ")" }
func (e *ECond) String() string {
	return "ite(" + e.C.String() + "," + e.T.String() + "," + e.F.String() + ")"
}
func (e *ETypeLit) String() string {
	return "type(" + e.T + ")"
}

type tok struct {
	kind string // id int str op eof
	text string
	pos  int
}

type lexer struct {
	src  string
	toks []tok
}

var ops3 = []string{"<==>", "==>", "...", "<<=", ">>=", "&^="}
var ops2 = []string{"::", "==", "!=", "<=", ">=", "&&", "||", "<<", ">>", "&^", ":="}

func lex(src string) ([]tok, error) {
	var toks []tok
	i := 0
	for i < len(src) {
		c := src[i]
		if c == ' ' || c == '\t' || c == '\n' || c == '\r' {
			i++
			continue
		}
		if unicode.IsLetter(rune(c)) || c == '_' || c == '$' {
			j := i + 1
			for j < len(src) && (unicode.IsLetter(rune(src[j])) || unicode.IsDigit(rune(src[j])) || src[j] == '_' || src[j] == '$') {
				j++
			}
			toks = append(toks, tok{"id", src[i:j], i})
			i = j
			continue
		}
		if unicode.IsDigit(rune(c)) {
			j := i + 1
			for j < len(src) && (unicode.IsDigit(rune(src[j])) || unicode.IsLetter(rune(src[j])) || src[j] == '_') {
				j++
			}
			toks = append(toks, tok{"int", strings.ReplaceAll(src[i:j], "_", ""), i})
			i = j
			continue
		}
		if c == '"' {
			j := i + 1
			for j < len(src) && src[j] != '"' {
				if src[j] == '\\' {
					j++
				}
				j++
			}
			if j >= len(src) {
				return nil, fmt.Errorf("unterminated string at %d", i)
			}
			toks = append(toks, tok{"str", src[i+1 : j], i})
			i = j + 1
			continue
		}
		matched := false
		for _, o := range ops3 {
			if strings.HasPrefix(src[i:], o) {
				toks = append(toks, tok{"op", o, i})
				i += len(o)
				matched = true
				break
			}
		}
		if matched {
			continue
		}
		for _, o := range ops2 {
			if strings.HasPrefix(src[i:], o) {
				toks = append(toks, tok{"op", o, i})
				i += len(o)
				matched = true
				break
			}
		}
		if matched {
			continue
		}
		toks = append(toks, tok{"op", string(c), i})
		i++
	}
	toks = append(toks, tok{"eof", "", len(src)})
	return toks, nil
}

type parser struct {
	toks []tok
	p    int
	src  string
}

func ParseExpr(src string) (e Expr, err error) {
	toks, err := lex(src)
	if err != nil {
		return nil, err
	}
	ps := &parser{toks: toks, src: src}
	defer func() {
		if r := recover(); r != nil {
			if pe, ok := r.(parseErr); ok {
				err = fmt.Errorf("%s in %q", string(pe), src)
				return
			}
			panic(r)
		}
	}()
	e = ps.expr()
	if ps.peek().kind != "eof" {
		ps.fail("unexpected %q", ps.peek().text)
	}
	return e, nil
}

type parseErr string

func (p *parser) fail(f string, a ...any) {
	panic(parseErr(fmt.Sprintf("parse error at %d: ", p.peek().pos) + fmt.Sprintf(f, a...)))
}
func (p *parser) peek() tok { return p.toks[p.p] }
func (p *parser) next() tok { t := p.toks[p.p]; p.p++; return t }
func (p *parser) isOp(s string) bool {
	t := p.peek()
	return t.kind == "op" && t.text == s
}
func (p *parser) isId(s string) bool {
	t := p.peek()
	return t.kind == "id" && t.text == s
}
func (p *parser) expectOp(s string) {
	if !p.isOp(s) {
		p.fail("expected %q, got %q", s, p.peek().text)
	}
	p.next()
}

// precedence: <==> (1) ==> (2, right assoc) || (3) && (4) cmp (5) + - | ^ (6) * / % << >> & &^ (7)
func (p *parser) expr() Expr {
	if p.isId("forall") || p.isId("exists") {
		return p.quant()
	}
	return p.iff()
}

func (p *parser) quant() Expr {
	q := p.next().text
	var vars []QVar
	for {
		nm := p.next()
		if nm.kind != "id" {
			p.fail("expected bound variable name")
		}
		ty := p.typeText()
		vars = append(vars, QVar{nm.text, ty})
		if p.isOp(",") {
			p.next()
			continue
		}
		break
	}
	p.expectOp("::")
	var trig [][]Expr
	for p.isOp("{") {
		p.next()
		var ts []Expr
		for {
			ts = append(ts, p.iff())
			if p.isOp(",") {
				p.next()
				continue
			}
			break
		}
		p.expectOp("}")
		trig = append(trig, ts)
	}
	body := p.expr()
	return &EQuant{Forall: q == "forall", Vars: vars, Body: body, Trig: trig}
}

// typeText consumes a type expression up to "," or "::" at depth 0 and returns its text.
func (p *parser) typeText() string {
	start := p.peek().pos
	depth := 0
	for {
		t := p.peek()
		if t.kind == "eof" {
			break
		}
		if t.kind == "op" {
			if depth == 0 && (t.text == "," || t.text == "::" || t.text == ")") {
				break
			}
			if t.text == "[" || t.text == "(" {
				depth++
			}
			if t.text == "]" || t.text == ")" {
				depth--
			}
		}
		p.next()
	}
	return strings.TrimSpace(p.src[start:p.peek().pos])
}

func (p *parser) iff() Expr {
	x := p.implies()
	for p.isOp("<==>") {
		p.next()
		y := p.implies()
		x = &EBin{"<==>", x, y}
	}
	return x
}

func (p *parser) implies() Expr {
	x := p.or()
	if p.isOp("==>") {
		p.next()
		var y Expr
		if p.isId("forall") || p.isId("exists") {
			y = p.quant()
		} else {
			y = p.implies()
		}
		return &EBin{"==>", x, y}
	}
	return x
}

func (p *parser) or() Expr {
	x := p.and()
	for p.isOp("||") {
		p.next()
		x = &EBin{"||", x, p.and()}
	}
	return x
}

func (p *parser) and() Expr {
	x := p.cmp()
	for p.isOp("&&") {
		p.next()
		var y Expr
		if p.isId("forall") || p.isId("exists") {
			y = p.quant()
		} else {
			y = p.cmp()
		}
		x = &EBin{"&&", x, y}
	}
	return x
}

func (p *parser) cmp() Expr {
	x := p.add()
	for {
		t := p.peek()
		if t.kind == "op" && (t.text == "==" || t.text == "!=" || t.text == "<" || t.text == "<=" || t.text == ">" || t.text == ">=") {
			p.next()
			x = &EBin{t.text, x, p.add()}
			continue
		}
		return x
	}
}

func (p *parser) add() Expr {
	x := p.mul()
	for {
		t := p.peek()
		if t.kind == "op" && (t.text == "+" || t.text == "-" || t.text == "|" || t.text == "^") {
			p.next()
			x = &EBin{t.text, x, p.mul()}
			continue
		}
		return x
	}
}

func (p *parser) mul() Expr {
	x := p.unary()
	for {
		t := p.peek()
		if t.kind == "op" && (t.text == "*" || t.text == "/" || t.text == "%" || t.text == "<<" || t.text == ">>" || t.text == "&" || t.text == "&^") {
			p.next()
			x = &EBin{t.text, x, p.unary()}
			continue
		}
		return x
	}
}

func (p *parser) unary() Expr {
	t := p.peek()
	if t.kind == "op" && (t.text == "!" || t.text == "-" || t.text == "*" || t.text == "&") {
		p.next()
		return &EUnary{t.text, p.unary()}
	}
	return p.postfix()
}

func (p *parser) postfix() Expr {
	x := p.primary()
	for {
		switch {
		case p.isOp("."):
			p.next()
			id := p.next()
			if id.kind != "id" {
				p.fail("expected selector name")
			}
			x = &ESel{x, id.text}
		case p.isOp("["):
			p.next()
			if p.isOp(":") {
				p.next()
				var hi Expr
				if !p.isOp("]") {
					hi = p.expr()
				}
				p.expectOp("]")
				x = &ESlice{x, nil, hi}
				continue
			}
			i := p.expr()
			if p.isOp(":") {
				p.next()
				var hi Expr
				if !p.isOp("]") {
					hi = p.expr()
				}
				p.expectOp("]")
				x = &ESlice{x, i, hi}
				continue
			}
			p.expectOp("]")
			x = &EIndex{x, i}
		case p.isOp("("):
			p.next()
			var args []Expr
			for !p.isOp(")") {
				args = append(args, p.expr())
				if p.isOp(",") {
					p.next()
				}
			}
			p.expectOp(")")
			if id, ok := x.(*EIdent); ok && id.Name == "old" && len(args) == 1 {
				x = &EOld{args[0]}
			} else if ok && id.Name == "ite" && len(args) == 3 {
				x = &ECond{args[0], args[1], args[2]}
			} else {
				x = &ECall{x, args}
			}
		default:
			return x
		}
	}
}

func (p *parser) primary() Expr {
	t := p.next()
	switch t.kind {
	case "id":
		switch t.text {
		case "true":
			return &EBool{true}
		case "false":
			return &EBool{false}
		case "nil":
			return &ENil{}
		case "forall", "exists":
			p.p--
			return p.quant()
		case "type":
			// type(T) literal
			if p.isOp("(") {
				p.next()
				tt := p.typeText()
				p.expectOp(")")
				return &ETypeLit{tt}
			}
		}
		return &EIdent{t.text}
	case "int":
		return &EInt{t.text}
	case "str":
		return &EStr{t.text}
	case "op":
		if t.text == "(" {
			e := p.expr()
			p.expectOp(")")
			return e
		}
	}
	p.p--
	p.fail("unexpected token %q", t.text)
	return nil
}

// substExpr substitutes identifiers by expressions (for define macros).
func substExpr(e Expr, m map[string]Expr) Expr {
	switch e := e.(type) {
	case nil:
		return nil
	case *EIdent:
		if r, ok := m[e.Name]; ok {
			return r
		}
		return e
	case *EInt, *EStr, *EBool, *ENil, *ETypeLit:
		return e
	case *ESel:
		return &ESel{substExpr(e.X, m), e.Sel}
	case *EIndex:
		return &EIndex{substExpr(e.X, m), substExpr(e.I, m)}
	case *ESlice:
		return &ESlice{substExpr(e.X, m), substExpr(e.Lo, m), substExpr(e.Hi, m)}
	case *ECall:
		var a []Expr
		for _, x := range e.Args {
			a = append(a, substExpr(x, m))
		}
		return &ECall{substExpr(e.Fun, m), a}
	case *EUnary:
		return &EUnary{e.Op, substExpr(e.X, m)}
	case *EBin:
		return &EBin{e.Op, substExpr(e.X, m), substExpr(e.Y, m)}
	case *EOld:
		return &EOld{substExpr(e.X, m)}
	case *ECond:
		return &ECond{substExpr(e.C, m), substExpr(e.T, m), substExpr(e.F, m)}
	case *EQuant:
		m2 := map[string]Expr{}
		for k, v := range m {
			m2[k] = v
		}
		for _, v := range e.Vars {
			delete(m2, v.Name)
		}
		var tr [][]Expr
		for _, ts := range e.Trig {
			var t2 []Expr
			for _, t := range ts {
				t2 = append(t2, substExpr(t, m2))
			}
			tr = append(tr, t2)
		}
		return &EQuant{e.Forall, e.Vars, substExpr(e.Body, m2), tr}
	}
	panic(fmt.Sprintf("substExpr: %T", e))
}

// splitConj splits top-level && conjunctions.
func splitConj(e Expr) []Expr {
	if b, ok := e.(*EBin); ok && b.Op == "&&" {
		return append(splitConj(b.X), splitConj(b.Y)...)
	}
	return []Expr{e}
}

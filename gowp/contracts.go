package main

import (
	"bufio"
	"fmt"
	"os"
	"regexp"
	"strconv"
	"strings"
)

// Clause is one labelled specification expression.
type Clause struct {
	Label string
	E     Expr
	Src   string
	Line  int
	File  string
}

type LoopSpec struct {
	Invariants []Clause
	Modifies   []Expr
	ModAll     bool
	Bound      int
	KeepsOld   bool // loop N keeps-old: memory older than the function entry changes only at iteration-independent addresses
	Ghosts     []GhostLoopVar
}

type GhostLoopVar struct {
	Name   string
	Type   string
	Init   Expr
	Update Expr
	AtEnd  bool // loop ghost whose update reads the values the iteration leaves behind (back-edge values)
	Target Expr // ghostret r.$f := e: assignment to a ghost field of an object named at the return
}

type AssertAt struct {
	C         Clause
	Anchor    string // e.g. "after call truncateHeaders#0", "before call X#0", "entry"
	Assume    bool
	Havoc     []Expr // "havoc loc at anchor": rely step for state shared with concurrently running callbacks
	SetTarget Expr   // x.$f for a ghost field target
	SetName   string // "ghostset $v := e at anchor": ghost assignment executed at the anchor
}

type FuncContract struct {
	Pkg          string // package path context
	Recv         string // receiver type text ("*headerStore", "File", "") as written
	Name         string
	ParamNames   []string
	ParamTypes   []string
	ResultNames  []string
	Requires     []Clause
	Ensures      []Clause
	Modifies     []Expr
	ModAll       bool
	Loops        map[int]*LoopSpec
	Asserts      []AssertAt
	AssumeOnly   bool // body not verified (trusted); contract used by callers
	Pure         bool
	Inline       bool // always inline body at call sites (no contract)
	NoFrame      bool // do not generate frame obligations
	Fresh        []string
	File         string
	Line         int
	Header       string
	Props        []string // property ids this contract serves (from "props C07,C08")
	PanicsIf     []Clause
	Extern       bool           // declared in an ext (.gowp) file
	Ghosts       []GhostLoopVar // function-level ghost variables
	SingleTx     bool           // single_transaction: all database writes happen inside exactly one walletdb.Update
	GhostRets    []GhostLoopVar // ghostret $v := e: ghost statement executed at every return (results are in scope)
	yieldInline  bool           // has yield invariants: inlined unless it also serves a property (props)
	CallsArg     int            // calls-arg N (stored as N+1; 0 = none)
	Seq          bool           // the function value is a sequence (iter.Seq/Seq2): calling it on a loop body is a loop
	Yields       []Clause       // what is known about the values a sequence hands to the loop body ($y0, $y1, $k)
	YieldInvs    []Clause       // on a synthetic range-over-func body: loop invariants over the enclosing function's variables and $k
	GhostSets    []GhostLoopVar // ghostset $v := e: ghost statement executed on entry of the function (scalar ghost variables)
	UnblocksOn   []Expr         // every blocking channel operation must be able to fire a receive on one of these channels
	UnblocksAlso [][]Expr       // further unblocks_on lines: each is an independent requirement of the same kind
	Durable      bool           // a durable step: callers assert their crash invariant after it
	Crash        []Clause       // crashstates: holds at every crash point inside the function
}

type DefineSpec struct {
	Pkg    string
	Name   string
	Params []QVar
	Result string
	Body   Expr
	File   string
	Line   int
}

type AbstractSpec struct {
	Pkg    string
	Name   string
	Params []string
	Result string
}

type AxiomSpec struct {
	Pkg string
	C   Clause
}

type GhostField struct {
	Pkg  string
	Name string // with $ prefix
	Type string
	Var  bool // scalar ghost variable rather than per-object field
}

// GhostInit: the value of a ghost field of a freshly allocated (zero) object of a type.
type GhostInit struct {
	Pkg   string
	Type  string
	Field string
	E     Expr
}

type SpecFile struct {
	Funcs      []*FuncContract
	Defines    []*DefineSpec
	Abstracts  []*AbstractSpec
	Axioms     []*AxiomSpec
	Sorts      []string
	Ghosts     []*GhostField
	Ignores    []string
	Implements []ImplSpec
	Inits      []GhostInit
	CloseOnly  []CloseOnlySpec
	Monitors   []*FuncContract // lock invariants: Recv/ParamNames[0] = object, Name = mutex field, Modifies = guarded locations, Ensures = invariant
}

// CloseOnlySpec declares a channel-typed struct field that is only ever closed and received from (never sent
// on, never handed to other code): a receive on it completes only once it is closed. Checked syntactically.
type CloseOnlySpec struct {
	Pkg   string
	Type  string
	Field string
}

type ImplSpec struct {
	Pkg   string
	Iface string
	Impl  string
}

var labelRe = regexp.MustCompile(`^([A-Za-z][A-Za-z0-9_\-]*):(?:[^:]|$)`)

var clauseKW = map[string]bool{
	"requires": true, "ensures": true, "modifies": true, "loop": true, "assume-only": true, "pure": true,
	"inline": true, "assert": true, "assume": true, "props": true, "noframe": true, "fresh": true, "panics_if": true, "ghost": true,
	"durable": true, "crashstates": true, "havoc": true, "guards": true, "invariant": true, "unblocks_on": true, "ghostset": true, "ghostret": true, "single_transaction": true, "seq": true, "yields": true, "yield": true, "calls-arg": true,
}
var topKW = map[string]bool{
	"func": true, "define": true, "abstract": true, "sort": true, "axiom": true, "ghost": true, "package": true, "ignore": true, "implements": true,
	"monitor": true, "closeonly": true,
}

// readSpecLines extracts specification lines. For .go files only //@ lines count.
func readSpecLines(path string) ([]string, []int, string, error) {
	f, err := os.Open(path)
	if err != nil {
		return nil, nil, "", err
	}
	defer f.Close()
	isGo := strings.HasSuffix(path, ".go")
	var lines []string
	var nums []int
	pkgName := ""
	sc := bufio.NewScanner(f)
	sc.Buffer(make([]byte, 1<<20), 1<<20)
	n := 0
	for sc.Scan() {
		n++
		l := sc.Text()
		if isGo {
			t := strings.TrimSpace(l)
			if strings.HasPrefix(t, "package ") && pkgName == "" {
				pkgName = strings.TrimSpace(strings.TrimPrefix(t, "package "))
			}
			if !strings.HasPrefix(t, "//@") {
				continue
			}
			l = strings.TrimPrefix(t, "//@")
		}
		// strip trailing comments "//" (not inside strings; we do not use // in specs)
		if i := strings.Index(l, "//"); i >= 0 {
			l = l[:i]
		}
		if !isGo {
			if i := strings.Index(l, "#!"); i >= 0 {
				l = l[:i]
			}
		}
		if strings.TrimSpace(l) == "" {
			continue
		}
		lines = append(lines, l)
		nums = append(nums, n)
	}
	return lines, nums, pkgName, sc.Err()
}

func firstWord(s string) (string, string) {
	s = strings.TrimSpace(s)
	i := strings.IndexAny(s, " \t")
	if i < 0 {
		return s, ""
	}
	return s[:i], strings.TrimSpace(s[i+1:])
}

// ParseSpecFile parses a contract file. pkgPath is the package context for .go contract files.
func ParseSpecFile(path string, pkgPath string) (*SpecFile, error) {
	lines, nums, _, err := readSpecLines(path)
	if err != nil {
		return nil, err
	}
	sf := &SpecFile{}
	// join continuation lines: a line continues the previous one if its first word is not a keyword
	type item struct {
		text string
		line int
		top  bool
	}
	var items []item
	for i, l := range lines {
		w, _ := firstWord(l)
		isTop := topKW[w]
		if w == "ghost" {
			_, r := firstWord(l)
			k, _ := firstWord(r)
			isTop = k == "field" || k == "var" || k == "init"
		}
		if isTop || clauseKW[w] {
			items = append(items, item{strings.TrimSpace(l), nums[i], isTop})
		} else {
			if len(items) == 0 {
				return nil, fmt.Errorf("%s:%d: continuation without clause", path, nums[i])
			}
			items[len(items)-1].text += " " + strings.TrimSpace(l)
		}
	}
	var cur *FuncContract
	curPkg := pkgPath
	mkClause := func(rest string, line int) (Clause, error) {
		label := ""
		if m := labelRe.FindStringSubmatch(rest); m != nil {
			label = m[1]
			rest = strings.TrimSpace(rest[len(m[1])+1:])
		}
		e, err := ParseExpr(rest)
		if err != nil {
			return Clause{}, fmt.Errorf("%s:%d: %v", path, line, err)
		}
		return Clause{Label: label, E: e, Src: rest, Line: line, File: path}, nil
	}
	parseLocs := func(rest string, line int) ([]Expr, bool, error) {
		if strings.TrimSpace(rest) == "*" {
			return nil, true, nil
		}
		var out []Expr
		for _, part := range splitTop(rest, ',') {
			part = strings.TrimSpace(part)
			if part == "" {
				continue
			}
			// allow x[*] and x.*  -> encode as call all(x) / fields(x)
			if strings.HasPrefix(part, "all(") && strings.HasSuffix(part, ")") {
				out = append(out, &ECall{&EIdent{"$allof"}, []Expr{&EIdent{strings.TrimSpace(part[4 : len(part)-1])}}})
				continue
			}
			if strings.HasSuffix(part, "[*]") {
				e, err := ParseExpr(strings.TrimSuffix(part, "[*]"))
				if err != nil {
					return nil, false, fmt.Errorf("%s:%d: %v", path, line, err)
				}
				out = append(out, &ECall{&EIdent{"$elems"}, []Expr{e}})
				continue
			}
			if strings.HasSuffix(part, ".*") {
				e, err := ParseExpr(strings.TrimSuffix(part, ".*"))
				if err != nil {
					return nil, false, fmt.Errorf("%s:%d: %v", path, line, err)
				}
				out = append(out, &ECall{&EIdent{"$fields"}, []Expr{e}})
				continue
			}
			e, err := ParseExpr(part)
			if err != nil {
				return nil, false, fmt.Errorf("%s:%d: %v", path, line, err)
			}
			out = append(out, e)
		}
		return out, false, nil
	}
	for _, it := range items {
		w, rest := firstWord(it.text)
		if it.top {
			switch w {
			case "package":
				curPkg = strings.Trim(rest, `"`)
				cur = nil
			case "monitor":
				fc, err := parseFuncHeader(rest)
				if err != nil {
					return nil, fmt.Errorf("%s:%d: %v", path, it.line, err)
				}
				fc.Pkg = curPkg
				fc.File = path
				fc.Line = it.line
				fc.Loops = map[int]*LoopSpec{}
				sf.Monitors = append(sf.Monitors, fc)
				cur = fc
			case "func":
				fc, err := parseFuncHeader(rest)
				if err != nil {
					return nil, fmt.Errorf("%s:%d: %v", path, it.line, err)
				}
				fc.Pkg = curPkg
				fc.File = path
				fc.Line = it.line
				fc.Loops = map[int]*LoopSpec{}
				fc.Extern = !strings.HasSuffix(path, ".go")
				sf.Funcs = append(sf.Funcs, fc)
				cur = fc
			case "define":
				// define name(a T, b U) R = expr
				eq := strings.Index(rest, "=")
				// find the '=' at depth 0 that is not part of ==, <=, >=, !=
				eq = findDefEq(rest)
				if eq < 0 {
					return nil, fmt.Errorf("%s:%d: define without =", path, it.line)
				}
				head := strings.TrimSpace(rest[:eq])
				body := strings.TrimSpace(rest[eq+1:])
				op := strings.Index(head, "(")
				cl := matchParen(head, op)
				if op < 0 || cl < 0 {
					return nil, fmt.Errorf("%s:%d: bad define header", path, it.line)
				}
				d := &DefineSpec{Pkg: curPkg, Name: strings.TrimSpace(head[:op]), Result: strings.TrimSpace(head[cl+1:]), File: path, Line: it.line}
				for _, ps := range splitTop(head[op+1:cl], ',') {
					ps = strings.TrimSpace(ps)
					if ps == "" {
						continue
					}
					n, t := firstWord(ps)
					d.Params = append(d.Params, QVar{n, t})
				}
				e, err := ParseExpr(body)
				if err != nil {
					return nil, fmt.Errorf("%s:%d: %v", path, it.line, err)
				}
				d.Body = e
				sf.Defines = append(sf.Defines, d)
				cur = nil
			case "abstract":
				op := strings.Index(rest, "(")
				cl := matchParen(rest, op)
				if op < 0 || cl < 0 {
					return nil, fmt.Errorf("%s:%d: bad abstract", path, it.line)
				}
				a := &AbstractSpec{Pkg: curPkg, Name: strings.TrimSpace(rest[:op]), Result: strings.TrimSpace(rest[cl+1:])}
				for _, ps := range splitTop(rest[op+1:cl], ',') {
					ps = strings.TrimSpace(ps)
					if ps != "" {
						a.Params = append(a.Params, ps)
					}
				}
				sf.Abstracts = append(sf.Abstracts, a)
				cur = nil
			case "sort":
				sf.Sorts = append(sf.Sorts, strings.Fields(rest)...)
				cur = nil
			case "axiom":
				c, err := mkClause(rest, it.line)
				if err != nil {
					return nil, err
				}
				sf.Axioms = append(sf.Axioms, &AxiomSpec{curPkg, c})
				cur = nil
			case "ghost":
				// ghost field $name Type | ghost var $name Type
				k, r2 := firstWord(rest)
				if k == "init" {
					// ghost init T $f = expr
					tn, r3 := firstWord(r2)
					fn, r4 := firstWord(r3)
					r4 = strings.TrimSpace(strings.TrimPrefix(strings.TrimSpace(r4), "="))
					e, err := ParseExpr(r4)
					if err != nil {
						return nil, fmt.Errorf("%s:%d: %v", path, it.line, err)
					}
					sf.Inits = append(sf.Inits, GhostInit{curPkg, tn, fn, e})
					cur = nil
					continue
				}
				n, t := firstWord(r2)
				if (k != "field" && k != "var") || !strings.HasPrefix(n, "$") || t == "" {
					return nil, fmt.Errorf("%s:%d: bad ghost declaration", path, it.line)
				}
				sf.Ghosts = append(sf.Ghosts, &GhostField{Pkg: curPkg, Name: n, Type: t, Var: k == "var"})
				cur = nil
			case "ignore":
				sf.Ignores = append(sf.Ignores, strings.Fields(rest)...)
				cur = nil
			case "closeonly":
				for _, f := range strings.Fields(rest) {
					i := strings.LastIndex(f, ".")
					if i <= 0 {
						return nil, fmt.Errorf("%s:%d: closeonly wants Type.field", path, it.line)
					}
					sf.CloseOnly = append(sf.CloseOnly, CloseOnlySpec{curPkg, f[:i], f[i+1:]})
				}
				cur = nil
			case "implements":
				parts := strings.Fields(rest)
				if len(parts) != 3 || parts[1] != "by" {
					return nil, fmt.Errorf("%s:%d: bad implements", path, it.line)
				}
				sf.Implements = append(sf.Implements, ImplSpec{curPkg, parts[0], parts[2]})
				cur = nil
			}
			continue
		}
		if cur == nil {
			return nil, fmt.Errorf("%s:%d: clause %q outside a func block", path, it.line, w)
		}
		switch w {
		case "requires":
			c, err := mkClause(rest, it.line)
			if err != nil {
				return nil, err
			}
			cur.Requires = append(cur.Requires, c)
		case "ensures":
			c, err := mkClause(rest, it.line)
			if err != nil {
				return nil, err
			}
			cur.Ensures = append(cur.Ensures, c)
		case "guards":
			locs, _, err := parseLocs(rest, it.line)
			if err != nil {
				return nil, err
			}
			cur.Modifies = append(cur.Modifies, locs...)
		case "invariant":
			cl, err := mkClause(rest, it.line)
			if err != nil {
				return nil, err
			}
			cur.Ensures = append(cur.Ensures, cl)
		case "panics_if":
			c, err := mkClause(rest, it.line)
			if err != nil {
				return nil, err
			}
			cur.PanicsIf = append(cur.PanicsIf, c)
		case "modifies":
			locs, all, err := parseLocs(rest, it.line)
			if err != nil {
				return nil, err
			}
			cur.Modifies = append(cur.Modifies, locs...)
			cur.ModAll = cur.ModAll || all
		case "unblocks_on":
			locs, _, err := parseLocs(rest, it.line)
			if err != nil {
				return nil, err
			}
			if len(cur.UnblocksOn) == 0 {
				cur.UnblocksOn = append(cur.UnblocksOn, locs...)
			} else {
				cur.UnblocksAlso = append(cur.UnblocksAlso, locs)
			}
		case "durable":
			cur.Durable = true
		case "single_transaction":
			cur.SingleTx = true
		case "crashstates":
			cl, err := mkClause(rest, it.line)
			if err != nil {
				return nil, err
			}
			cur.Crash = append(cur.Crash, cl)
		case "assume-only":
			cur.AssumeOnly = true
		case "pure":
			cur.Pure = true
		case "inline":
			cur.Inline = true
		case "noframe":
			cur.NoFrame = true
		case "fresh":
			cur.Fresh = append(cur.Fresh, strings.Fields(strings.ReplaceAll(rest, ",", " "))...)
		case "props":
			cur.Props = append(cur.Props, strings.Fields(strings.ReplaceAll(rest, ",", " "))...)
		case "ghost":
			// ghost name Type := init
			n, r2 := firstWord(rest)
			i := strings.Index(r2, ":=")
			if i < 0 {
				return nil, fmt.Errorf("%s:%d: bad ghost", path, it.line)
			}
			ini, err := ParseExpr(r2[i+2:])
			if err != nil {
				return nil, fmt.Errorf("%s:%d: %v", path, it.line, err)
			}
			cur.Ghosts = append(cur.Ghosts, GhostLoopVar{Name: n, Type: strings.TrimSpace(r2[:i]), Init: ini})
		case "calls-arg":
			// calls-arg N: the function calls its N-th argument (a function literal of the caller) any number of
			// times and has no other effect: at the call site the literal is treated as the body of a loop
			n, err := strconv.Atoi(strings.TrimSpace(rest))
			if err != nil {
				return nil, fmt.Errorf("%s:%d: calls-arg wants an argument index", path, it.line)
			}
			cur.CallsArg = n + 1
			cur.AssumeOnly = true
		case "seq":
			cur.Seq = true
			cur.AssumeOnly = true
		case "yields":
			cl, err := mkClause(rest, it.line)
			if err != nil {
				return nil, err
			}
			cur.Yields = append(cur.Yields, cl)
		case "yield":
			// yield invariant [label:] e
			k2, r2 := firstWord(rest)
			if k2 != "invariant" {
				return nil, fmt.Errorf("%s:%d: want 'yield invariant ...'", path, it.line)
			}
			cl, err := mkClause(r2, it.line)
			if err != nil {
				return nil, err
			}
			cur.YieldInvs = append(cur.YieldInvs, cl)
			cur.yieldInline = true
		case "ghostret":
			n, r2 := firstWord(rest)
			var target Expr
			if !strings.HasPrefix(n, "$") && strings.Contains(n, ".$") {
				te, err := ParseExpr(n)
				if err != nil {
					return nil, fmt.Errorf("%s:%d: %v", path, it.line, err)
				}
				target = te
			} else if !strings.HasPrefix(n, "$") {
				return nil, fmt.Errorf("%s:%d: ghostret wants '$v := expr' or 'r.$f := expr'", path, it.line)
			}
			if !strings.HasPrefix(strings.TrimSpace(r2), ":=") {
				return nil, fmt.Errorf("%s:%d: ghostret wants '$v := expr'", path, it.line)
			}
			e, err := ParseExpr(strings.TrimPrefix(strings.TrimSpace(r2), ":="))
			if err != nil {
				return nil, fmt.Errorf("%s:%d: %v", path, it.line, err)
			}
			cur.GhostRets = append(cur.GhostRets, GhostLoopVar{Name: n, Init: e, Target: target})
		case "ghostset":
			n, r2 := firstWord(rest)
			var target Expr
			if !strings.HasPrefix(n, "$") && strings.Contains(n, ".$") {
				// ghostset x.$f := e at <anchor>: assignment to a ghost field
				te, err := ParseExpr(n)
				if err != nil {
					return nil, fmt.Errorf("%s:%d: %v", path, it.line, err)
				}
				target = te
			} else if !strings.HasPrefix(n, "$") {
				return nil, fmt.Errorf("%s:%d: ghostset wants '$v := expr' or 'x.$f := expr at anchor'", path, it.line)
			}
			if !strings.HasPrefix(strings.TrimSpace(r2), ":=") {
				return nil, fmt.Errorf("%s:%d: ghostset wants '$v := expr'", path, it.line)
			}
			anchorAt := ""
			if i := strings.LastIndex(r2, " at "); i >= 0 {
				// ghostset $v := e at <anchor>: ghost statement executed at a call site
				anchorAt = strings.TrimSpace(r2[i+4:])
				r2 = r2[:i]
			}
			e, err := ParseExpr(strings.TrimPrefix(strings.TrimSpace(r2), ":="))
			if err != nil {
				return nil, fmt.Errorf("%s:%d: %v", path, it.line, err)
			}
			if anchorAt != "" {
				cur.Asserts = append(cur.Asserts, AssertAt{C: Clause{E: e, Src: n + " := " + strings.TrimSpace(r2)}, Anchor: anchorAt, SetName: n, SetTarget: target})
				break
			}
			if target != nil {
				return nil, fmt.Errorf("%s:%d: ghostset on a ghost field needs an anchor", path, it.line)
			}
			cur.GhostSets = append(cur.GhostSets, GhostLoopVar{Name: n, Init: e})
		case "havoc":
			i := strings.LastIndex(rest, " at ")
			if i < 0 {
				return nil, fmt.Errorf("%s:%d: havoc without anchor", path, it.line)
			}
			locs, _, err := parseLocs(rest[:i], it.line)
			if err != nil {
				return nil, err
			}
			cur.Asserts = append(cur.Asserts, AssertAt{Anchor: strings.TrimSpace(rest[i+4:]), Havoc: locs, C: Clause{Label: "havoc", Src: rest}})
		case "assert", "assume":
			// assert [label:] expr at anchor
			i := strings.LastIndex(rest, " at ")
			if i < 0 {
				return nil, fmt.Errorf("%s:%d: assert without anchor", path, it.line)
			}
			c, err := mkClause(strings.TrimSpace(rest[:i]), it.line)
			if err != nil {
				return nil, err
			}
			cur.Asserts = append(cur.Asserts, AssertAt{C: c, Anchor: strings.TrimSpace(rest[i+4:]), Assume: w == "assume"})
		case "loop":
			ns, r2 := firstWord(rest)
			n, err := strconv.Atoi(ns)
			if err != nil {
				return nil, fmt.Errorf("%s:%d: bad loop ordinal %q", path, it.line, ns)
			}
			ls := cur.Loops[n]
			if ls == nil {
				ls = &LoopSpec{}
				cur.Loops[n] = ls
			}
			k, r3 := firstWord(r2)
			switch k {
			case "invariant":
				c, err := mkClause(r3, it.line)
				if err != nil {
					return nil, err
				}
				ls.Invariants = append(ls.Invariants, c)
			case "modifies":
				locs, all, err := parseLocs(r3, it.line)
				if err != nil {
					return nil, err
				}
				ls.Modifies = append(ls.Modifies, locs...)
				ls.ModAll = ls.ModAll || all
			case "keeps-old":
				ls.KeepsOld = true
			case "bound":
				b, err := strconv.Atoi(strings.TrimSpace(r3))
				if err != nil {
					return nil, fmt.Errorf("%s:%d: bad bound", path, it.line)
				}
				ls.Bound = b
			case "ghost", "ghostend":
				// loop N ghost name Type := init ; update        (update reads the values at the start of the iteration)
				// loop N ghostend name Type := init ; update     (update reads the values the iteration leaves behind)
				n, r4 := firstWord(r3)
				i := strings.Index(r4, ":=")
				if i < 0 {
					return nil, fmt.Errorf("%s:%d: bad loop ghost", path, it.line)
				}
				ty := strings.TrimSpace(r4[:i])
				parts := splitTop(r4[i+2:], ';')
				if len(parts) != 2 {
					return nil, fmt.Errorf("%s:%d: loop ghost needs 'init ; update'", path, it.line)
				}
				ini, err := ParseExpr(parts[0])
				if err != nil {
					return nil, fmt.Errorf("%s:%d: %v", path, it.line, err)
				}
				upd, err := ParseExpr(parts[1])
				if err != nil {
					return nil, fmt.Errorf("%s:%d: %v", path, it.line, err)
				}
				ls.Ghosts = append(ls.Ghosts, GhostLoopVar{Name: n, Type: ty, Init: ini, Update: upd, AtEnd: k == "ghostend"})
			default:
				return nil, fmt.Errorf("%s:%d: unknown loop clause %q", path, it.line, k)
			}
		}
	}
	return sf, nil
}

func findDefEq(s string) int {
	depth := 0
	for i := 0; i < len(s); i++ {
		switch s[i] {
		case '(', '[':
			depth++
		case ')', ']':
			depth--
		case '=':
			if depth == 0 {
				prev := byte(' ')
				if i > 0 {
					prev = s[i-1]
				}
				next := byte(' ')
				if i+1 < len(s) {
					next = s[i+1]
				}
				if prev != '=' && prev != '!' && prev != '<' && prev != '>' && next != '=' {
					return i
				}
			}
		}
	}
	return -1
}

func matchParen(s string, open int) int {
	if open < 0 || open >= len(s) {
		return -1
	}
	depth := 0
	for i := open; i < len(s); i++ {
		switch s[i] {
		case '(', '[':
			depth++
		case ')', ']':
			depth--
			if depth == 0 {
				return i
			}
		}
	}
	return -1
}

func splitTop(s string, sep byte) []string {
	var out []string
	depth := 0
	start := 0
	for i := 0; i < len(s); i++ {
		switch s[i] {
		case '(', '[', '{':
			depth++
		case ')', ']', '}':
			depth--
		default:
			if s[i] == sep && depth == 0 {
				out = append(out, s[start:i])
				start = i + 1
			}
		}
	}
	out = append(out, s[start:])
	return out
}

// parseFuncHeader parses "(h *headerStore) appendRaw(header []byte) (err error)" or
// "pkg.Name(params) results" or "Name$1".
func parseFuncHeader(s string) (*FuncContract, error) {
	fc := &FuncContract{Header: s}
	s = strings.TrimSpace(s)
	if strings.HasPrefix(s, "(") {
		cl := matchParen(s, 0)
		if cl < 0 {
			return nil, fmt.Errorf("bad receiver in %q", s)
		}
		recv := strings.TrimSpace(s[1:cl])
		// generic receivers "c *Cache[K, V]": drop the type parameter list
		if i := strings.Index(recv, "["); i >= 0 {
			if j := strings.LastIndex(recv, "]"); j > i {
				recv = recv[:i] + recv[j+1:]
			}
		}
		parts := strings.Fields(recv)
		if len(parts) == 2 {
			fc.ParamNames = append(fc.ParamNames, parts[0])
			fc.ParamTypes = append(fc.ParamTypes, parts[1])
			fc.Recv = parts[1]
		} else if len(parts) == 1 {
			fc.ParamNames = append(fc.ParamNames, "_recv")
			fc.ParamTypes = append(fc.ParamTypes, parts[0])
			fc.Recv = parts[0]
		} else {
			return nil, fmt.Errorf("bad receiver %q", recv)
		}
		s = strings.TrimSpace(s[cl+1:])
	}
	op := strings.Index(s, "(")
	if op < 0 {
		fc.Name = strings.TrimSpace(s)
		fc.ParamNames = nil // unknown; take from SSA
		if fc.Recv != "" {
			// keep receiver name
			fc.ParamNames = []string{strings.Fields(fc.Header[1:])[0]}
			fc.ParamNames = nil
		}
		return fc, nil
	}
	fc.Name = strings.TrimSpace(s[:op])
	cl := matchParen(s, op)
	if cl < 0 {
		return nil, fmt.Errorf("bad params in %q", s)
	}
	for _, ps := range splitTop(s[op+1:cl], ',') {
		ps = strings.TrimSpace(ps)
		if ps == "" {
			continue
		}
		n, t := firstWord(ps)
		fc.ParamNames = append(fc.ParamNames, n)
		fc.ParamTypes = append(fc.ParamTypes, t)
	}
	rest := strings.TrimSpace(s[cl+1:])
	if strings.HasPrefix(rest, "(") {
		cl2 := matchParen(rest, 0)
		if cl2 < 0 {
			return nil, fmt.Errorf("bad results in %q", s)
		}
		for _, rs := range splitTop(rest[1:cl2], ',') {
			rs = strings.TrimSpace(rs)
			if rs == "" {
				continue
			}
			n, t := firstWord(rs)
			if t == "" {
				// unnamed result
				fc.ResultNames = append(fc.ResultNames, "")
			} else {
				fc.ResultNames = append(fc.ResultNames, n)
			}
		}
	} else if rest != "" {
		fc.ResultNames = append(fc.ResultNames, "")
	}
	return fc, nil
}

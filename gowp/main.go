package main

import (
	"flag"
	"fmt"
	"os"
	"os/exec"
	"regexp"
	"sort"
	"strings"
	"time"
)

var (
	origPath  string
	defaultGo = "go"
)

func main() {
	origPath = os.Getenv("PATH")
	if p, err := exec.LookPath("go"); err == nil {
		defaultGo = p
	}
	os.Setenv("PATH", "/opt/veriftools/go1.26.8/bin:"+origPath)
	if len(os.Args) < 2 {
		fmt.Fprintln(os.Stderr, "usage: gowp verify|check ...")
		os.Exit(2)
	}
	switch os.Args[1] {
	case "verify":
		cmdVerify(os.Args[2:])
	case "check":
		cmdCheck(os.Args[2:])
	default:
		fmt.Fprintln(os.Stderr, "unknown command", os.Args[1])
		os.Exit(2)
	}
}

// cmdVerify: development entry point. Verifies functions matching a regexp and prints verdicts.
func cmdVerify(args []string) {
	fs := flag.NewFlagSet("verify", flag.ExitOnError)
	dir := fs.String("dir", "/repo", "module directory")
	pkgs := fs.String("pkgs", "./...", "package patterns (comma separated)")
	ext := fs.String("ext", "/verif/contracts/ext", "assumed-contract directory")
	fre := fs.String("funcs", ".*", "regexp on function keys")
	work := fs.String("work", "/verif/work/dev", "work directory")
	timeout := fs.Int("timeout", 10000, "per-obligation timeout (ms)")
	showSide := fs.Bool("side", true, "also check safety side obligations")
	verbose := fs.Bool("v", false, "verbose")
	fs.Parse(args)
	t0 := time.Now()
	w, err := LoadWorld(*dir, strings.Split(*pkgs, ","), *ext, nil)
	if err != nil {
		fmt.Fprintln(os.Stderr, "load:", err)
		os.Exit(2)
	}
	fmt.Printf("loaded in %.1fs, %d contracts\n", time.Since(t0).Seconds(), len(w.contracts))
	for _, e := range w.protoErrs {
		fmt.Println("PROTOCOL close-only discipline broken:", e)
	}
	re := regexp.MustCompile(*fre)
	for k, fc := range w.contracts {
		if !fc.Extern && !fc.AssumeOnly && !fc.Inline && len(fc.Props) == 0 {
			if fn := w.lookupFunc(k); fn != nil && len(fn.Blocks) > 0 {
				fmt.Printf("NOTE contract of %s serves no property: used at call sites but verified by no check\n", k)
			}
		}
	}
	var keys []string
	for k, fc := range w.contracts {
		if fc.Extern || (fc.AssumeOnly && !fc.SingleTx && !(fc.CallsArg > 0 && len(fc.Props) > 0)) || fc.Inline {
			continue
		}
		if re.MatchString(k) {
			keys = append(keys, k)
		}
	}
	sort.Strings(keys)
	bad := 0
	for _, k := range keys {
		fn := w.lookupFunc(k)
		if fn != nil && os.Getenv("GOWP_DUMP_SSA") != "" {
			fn.WriteTo(os.Stderr)
			for _, a := range fn.AnonFuncs {
				a.WriteTo(os.Stderr)
			}
		}
		if fn == nil {
			fmt.Printf("%s: NO SUCH FUNCTION\n", k)
			bad++
			continue
		}
		g := NewGen(w, k)
		t1 := time.Now()
		err := g.VerifyFunction(fn)
		if err != nil {
			fmt.Printf("%s: TOOL-LIMIT %v\n", k, err)
			bad++
			continue
		}
		obls := g.obls
		if !*showSide {
			var f []*Obligation
			for _, o := range obls {
				if !o.Side {
					f = append(f, o)
				}
			}
			obls = f
		}
		vs := Solve(g, obls, *work+"/"+clean(k), *timeout, 6)
		nd, nf := 0, 0
		for _, v := range vs {
			switch v.Status {
			case "discharged", "covered":
				nd++
				if *verbose {
					fmt.Printf("   ok   %-70s %s %dms\n", v.Obl.Name, v.Solver, v.Ms)
				}
			default:
				nf++
				fmt.Printf("   %-8s %s  [%s] %s %s %dms\n      file %s\n", strings.ToUpper(v.Status), v.Obl.Name, v.Obl.Src, v.Obl.Pos, v.Solver, v.Ms, v.File)
			}
		}
		fmt.Printf("%s: %d obligations, %d ok, %d not ok (gen %.2fs, total %.2fs, script %d lines)\n", k, len(vs), nd, nf, 0.0, time.Since(t1).Seconds(), g.sc.Len())
		if nf > 0 {
			bad++
		}
	}
	if bad > 0 {
		os.Exit(1)
	}
}

package main

import (
	"fmt"
	"go/ast"
	"go/token"
	"go/types"
	"os"
	"path/filepath"
	"regexp"
	"sort"
	"strconv"
	"strings"

	"golang.org/x/tools/go/packages"
	"golang.org/x/tools/go/ssa"
	"golang.org/x/tools/go/ssa/ssautil"
)

// World holds the loaded program and the contract registry.
type World struct {
	fset         *token.FileSet
	roots        []*packages.Package
	byPath       map[string]*packages.Package
	byName       map[string][]*packages.Package
	prog         *ssa.Program
	contracts    map[string]*FuncContract
	defines      map[string]*DefineSpec
	abstracts    map[string]*AbstractSpec
	axioms       []*AxiomSpec
	sorts        map[string]bool
	ghosts       map[string]*GhostField
	ignores      []*regexp.Regexp
	funcs        map[string]*ssa.Function
	specFiles    []string
	impls        []ImplSpec
	inits        []GhostInit
	monitors     map[string]*FuncContract
	closeOnly    map[string]bool // "pkgpath.Type.field"
	protoErrs    []string        // violations of the syntactic close-only discipline
	calledProved map[string]bool
}

// Ty is the type of a spec expression: a Go type, or a spec-only SMT sort.
type Ty struct {
	G    types.Type
	Spec string
	Elem *Ty // element type of a spec map (fmap[K,V]) whose values are Go-typed
}

func (t Ty) String() string {
	if t.G != nil {
		return t.G.String()
	}
	return t.Spec
}

func LoadWorld(dir string, patterns []string, extDir string, overlay map[string][]byte) (*World, error) {
	fset := token.NewFileSet()
	cfg := &packages.Config{
		Mode:       packages.LoadAllSyntax,
		Dir:        dir,
		Fset:       fset,
		BuildFlags: []string{"-tags=verif"},
		Overlay:    overlay,
		Env:        loaderEnv(),
	}
	pkgs, err := packages.Load(cfg, patterns...)
	if err != nil {
		return nil, err
	}
	nerr := 0
	packages.Visit(pkgs, nil, func(p *packages.Package) {
		for _, e := range p.Errors {
			fmt.Fprintln(os.Stderr, "load error:", e)
			nerr++
		}
	})
	if nerr > 0 {
		return nil, fmt.Errorf("%d package load errors", nerr)
	}
	w := &World{fset: fset, roots: pkgs, byPath: map[string]*packages.Package{}, byName: map[string][]*packages.Package{},
		contracts: map[string]*FuncContract{}, defines: map[string]*DefineSpec{}, abstracts: map[string]*AbstractSpec{},
		sorts: map[string]bool{}, ghosts: map[string]*GhostField{}, funcs: map[string]*ssa.Function{}}
	packages.Visit(pkgs, nil, func(p *packages.Package) {
		w.byPath[p.PkgPath] = p
		w.byName[p.Name] = append(w.byName[p.Name], p)
	})
	prog, _ := ssautil.AllPackages(pkgs, ssa.GlobalDebug|ssa.InstantiateGenerics)
	prog.Build()
	w.prog = prog
	for fn := range ssautil.AllFunctions(prog) {
		k := funcKey(fn)
		if old, ok := w.funcs[k]; ok {
			// prefer generic origin / non-synthetic
			if old.Synthetic == "" {
				continue
			}
		}
		w.funcs[k] = fn
	}
	// methods of (generic) named types are not always reachable through AllFunctions: add them explicitly
	for _, p := range pkgs {
		if p.Types == nil {
			continue
		}
		sc := p.Types.Scope()
		for _, n := range sc.Names() {
			tn, ok := sc.Lookup(n).(*types.TypeName)
			if !ok {
				continue
			}
			named, ok := tn.Type().(*types.Named)
			if !ok {
				continue
			}
			for i := 0; i < named.NumMethods(); i++ {
				if fn := prog.FuncValue(named.Method(i)); fn != nil && len(fn.Blocks) > 0 {
					k := funcKey(fn)
					if _, ok := w.funcs[k]; !ok {
						w.funcs[k] = fn
						for _, an := range fn.AnonFuncs {
							w.funcs[funcKey(an)] = an
						}
					}
				}
			}
		}
	}
	// contract files: zz_verif_contracts*.go in root packages (and same-module deps), then ext files
	seen := map[string]bool{}
	packages.Visit(pkgs, nil, func(p *packages.Package) {
		for _, f := range p.GoFiles {
			base := filepath.Base(f)
			if strings.HasPrefix(base, "zz_verif_contracts") && !seen[f] {
				seen[f] = true
				if err2 := w.addSpecFile(f, p.PkgPath); err2 != nil && err == nil {
					err = err2
				}
			}
		}
	})
	if err != nil {
		return nil, err
	}
	defer w.checkCloseOnly()
	if extDir != "" {
		ms, _ := filepath.Glob(filepath.Join(extDir, "*.gowp"))
		sort.Strings(ms)
		for _, f := range ms {
			if err := w.addSpecFile(f, ""); err != nil {
				return nil, err
			}
		}
	}
	return w, nil
}

// loaderEnv: packages.Load must run the newer Go (the default go cannot type-check a go 1.25 module with x/tools v0.50).
func loaderEnv() []string {
	var env []string
	for _, e := range os.Environ() {
		if strings.HasPrefix(e, "PATH=") || strings.HasPrefix(e, "GOTOOLCHAIN=") || strings.HasPrefix(e, "GOFLAGS=") || strings.HasPrefix(e, "GOPROXY=") {
			continue
		}
		env = append(env, e)
	}
	return append(env, "PATH=/opt/veriftools/go1.26.8/bin:"+os.Getenv("PATH"), "GOFLAGS=-mod=mod", "GOPROXY=off", "GOTOOLCHAIN=local")
}

var typeArgsRe = regexp.MustCompile(`\[[^\[\]]*\]`)

func stripTypeArgs(s string) string {
	for {
		n := typeArgsRe.ReplaceAllStringFunc(s, func(m string) string {
			// keep array/slice syntax like []byte or [32]byte: these follow no identifier char
			return m
		})
		_ = n
		break
	}
	// remove [..] that directly follows an identifier character (generic instantiation / receiver type params)
	var b strings.Builder
	depth := 0
	for i := 0; i < len(s); i++ {
		c := s[i]
		if c == '[' && depth == 0 && i > 0 && (isIdentChar(s[i-1])) {
			depth = 1
			continue
		}
		if depth > 0 {
			if c == '[' {
				depth++
			} else if c == ']' {
				depth--
			}
			continue
		}
		b.WriteByte(c)
	}
	return b.String()
}

func isIdentChar(c byte) bool {
	return c == '_' || (c >= 'a' && c <= 'z') || (c >= 'A' && c <= 'Z') || (c >= '0' && c <= '9')
}

func funcKey(fn *ssa.Function) string {
	if o := fn.Origin(); o != nil {
		fn = o
	}
	return stripTypeArgs(fn.String())
}

func (w *World) addSpecFile(path, pkgPath string) error {
	sf, err := ParseSpecFile(path, pkgPath)
	if err != nil {
		return err
	}
	w.specFiles = append(w.specFiles, path)
	for _, fc := range sf.Funcs {
		k, err := w.contractKey(fc)
		if err != nil {
			return fmt.Errorf("%s:%d: %v", fc.File, fc.Line, err)
		}
		if old, dup := w.contracts[k]; dup {
			return fmt.Errorf("%s:%d: duplicate contract for %s (also %s:%d)", fc.File, fc.Line, k, old.File, old.Line)
		}
		if fc.yieldInline && len(fc.Props) == 0 {
			fc.Inline = true
		}
		w.contracts[k] = fc
	}
	for _, d := range sf.Defines {
		if _, dup := w.defines[d.Name]; dup {
			return fmt.Errorf("%s:%d: duplicate define %s", d.File, d.Line, d.Name)
		}
		w.defines[d.Name] = d
	}
	for _, a := range sf.Abstracts {
		w.abstracts[a.Name] = a
	}
	w.axioms = append(w.axioms, sf.Axioms...)
	for _, s := range sf.Sorts {
		w.sorts[s] = true
	}
	for _, gf := range sf.Ghosts {
		if old, dup := w.ghosts[gf.Name]; dup && (old.Type != gf.Type || old.Var != gf.Var) {
			return fmt.Errorf("%s: ghost %s declared twice with different types (%s / %s)", path, gf.Name, old.Type, gf.Type)
		}
		w.ghosts[gf.Name] = gf
	}
	for _, ig := range sf.Ignores {
		re, err := regexp.Compile("^" + ig + "$")
		if err != nil {
			return err
		}
		w.ignores = append(w.ignores, re)
	}
	for _, co := range sf.CloseOnly {
		if w.closeOnly == nil {
			w.closeOnly = map[string]bool{}
		}
		pk := co.Pkg
		if pk == "" {
			pk = pkgPath
		}
		w.closeOnly[pk+"."+co.Type+"."+co.Field] = true
	}
	w.impls = append(w.impls, sf.Implements...)
	w.inits = append(w.inits, sf.Inits...)
	for _, m := range sf.Monitors {
		k, err := w.contractKey(m)
		if err != nil {
			return fmt.Errorf("%s:%d: %v", m.File, m.Line, err)
		}
		if w.monitors == nil {
			w.monitors = map[string]*FuncContract{}
		}
		w.monitors[k] = m
	}
	return nil
}

func (w *World) ignored(key string) bool {
	for _, re := range w.ignores {
		if re.MatchString(key) {
			return true
		}
	}
	return false
}

// pkgByName resolves a package qualifier as used in contract text.
func (w *World) pkgByName(ctxPkg, name string) (*packages.Package, error) {
	if p, ok := w.byPath[name]; ok {
		return p, nil
	}
	// prefer an import of the context package
	if cp := w.byPath[ctxPkg]; cp != nil {
		if cp.Name == name {
			return cp, nil
		}
		for _, ip := range cp.Imports {
			if ip.Name == name {
				return ip, nil
			}
		}
		// also import aliases used in files
		for _, f := range cp.Syntax {
			for _, is := range f.Imports {
				if is.Name != nil && is.Name.Name == name {
					p, _ := strconv.Unquote(is.Path.Value)
					if ip := w.byPath[p]; ip != nil {
						return ip, nil
					}
				}
			}
		}
	}
	c := w.byName[name]
	if len(c) == 1 {
		return c[0], nil
	}
	if len(c) == 0 {
		return nil, fmt.Errorf("unknown package %q", name)
	}
	// prefer shortest path (std) deterministic
	sort.Slice(c, func(i, j int) bool { return len(c[i].PkgPath) < len(c[j].PkgPath) })
	return c[0], nil
}

// contractKey computes the canonical function key of a contract header.
func (w *World) contractKey(fc *FuncContract) (string, error) {
	name := fc.Name
	pkg := fc.Pkg
	if fc.Recv == "" {
		if i := strings.LastIndex(name, "."); i >= 0 && !strings.Contains(name[:i], "$") {
			p, err := w.pkgByName(pkg, name[:i])
			if err != nil {
				return "", err
			}
			pkg = p.PkgPath
			name = name[i+1:]
		}
		if pkg == "" {
			return "", fmt.Errorf("function %s without package context", fc.Name)
		}
		return pkg + "." + name, nil
	}
	recv := stripTypeArgs(fc.Recv)
	ptr := strings.HasPrefix(recv, "*")
	recv = strings.TrimPrefix(recv, "*")
	if i := strings.LastIndex(recv, "."); i >= 0 {
		p, err := w.pkgByName(pkg, recv[:i])
		if err != nil {
			return "", err
		}
		pkg = p.PkgPath
		recv = recv[i+1:]
	}
	if pkg == "" {
		return "", fmt.Errorf("method %s.%s without package context", fc.Recv, fc.Name)
	}
	if ptr {
		return "(*" + pkg + "." + recv + ")." + name, nil
	}
	return "(" + pkg + "." + recv + ")." + name, nil
}

// ---------- type resolution for contract text ----------

func (w *World) resolveType(ctxPkg, text string, g *Gen) Ty {
	text = strings.TrimSpace(text)
	switch text {
	case "Int":
		return Ty{Spec: SInt}
	case "Bool":
		return Ty{Spec: SBool}
	case "Ref":
		return Ty{Spec: SRef}
	case "error":
		return Ty{G: types.Universe.Lookup("error").Type()}
	case "any":
		return Ty{G: types.Universe.Lookup("any").Type()}
	}
	if w.sorts[text] {
		g.declSort(text)
		return Ty{Spec: text}
	}
	if tp, ok := g.tparamTypes[text]; ok {
		return Ty{G: tp}
	}
	if strings.HasPrefix(text, "set[") && strings.HasSuffix(text, "]") {
		k := w.resolveType(ctxPkg, text[4:len(text)-1], g)
		return Ty{Spec: arraySort(g.tySort(k), SBool)}
	}
	if strings.HasPrefix(text, "fmap[") && strings.HasSuffix(text, "]") {
		parts := splitTop(text[5:len(text)-1], ',')
		if len(parts) == 2 {
			k := w.resolveType(ctxPkg, parts[0], g)
			v := w.resolveType(ctxPkg, parts[1], g)
			return Ty{Spec: arraySort(g.tySort(k), g.tySort(v)), Elem: &v}
		}
	}
	if strings.HasPrefix(text, "*") {
		e := w.resolveType(ctxPkg, text[1:], g)
		if e.G == nil {
			g.fail("pointer to spec sort %s", text)
		}
		return Ty{G: types.NewPointer(e.G)}
	}
	if strings.HasPrefix(text, "[]") {
		e := w.resolveType(ctxPkg, text[2:], g)
		if e.G == nil {
			g.fail("slice of spec sort %s", text)
		}
		return Ty{G: types.NewSlice(e.G)}
	}
	if strings.HasPrefix(text, "...") {
		e := w.resolveType(ctxPkg, text[3:], g)
		return Ty{G: types.NewSlice(e.G)}
	}
	if strings.HasPrefix(text, "[") {
		cl := strings.Index(text, "]")
		n, err := strconv.Atoi(text[1:cl])
		if err != nil {
			g.fail("bad array type %s", text)
		}
		e := w.resolveType(ctxPkg, text[cl+1:], g)
		return Ty{G: types.NewArray(e.G, int64(n))}
	}
	if strings.HasPrefix(text, "map[") {
		cl := matchParen(text, 3)
		k := w.resolveType(ctxPkg, text[4:cl], g)
		v := w.resolveType(ctxPkg, text[cl+1:], g)
		return Ty{G: types.NewMap(k.G, v.G)}
	}
	if obj := types.Universe.Lookup(text); obj != nil {
		if tn, ok := obj.(*types.TypeName); ok {
			return Ty{G: tn.Type()}
		}
	}
	pkgPath := ctxPkg
	name := text
	if i := strings.LastIndex(text, "."); i >= 0 {
		p, err := w.pkgByName(ctxPkg, text[:i])
		if err != nil {
			g.fail("type %s: %v", text, err)
		}
		pkgPath = p.PkgPath
		name = text[i+1:]
	}
	targsText := ""
	if i := strings.Index(name, "["); i > 0 && strings.HasSuffix(name, "]") {
		targsText = name[i+1 : len(name)-1]
	}
	name = stripTypeArgs(name)
	p := w.byPath[pkgPath]
	if p == nil {
		g.fail("type %s: no package context %q", text, pkgPath)
	}
	obj := p.Types.Scope().Lookup(name)
	if obj == nil {
		g.fail("type %s not found in %s", name, pkgPath)
	}
	tn, ok := obj.(*types.TypeName)
	if !ok {
		g.fail("%s is not a type", text)
	}
	if targsText != "" {
		if named, ok := tn.Type().(*types.Named); ok && named.TypeParams().Len() > 0 {
			var targs []types.Type
			for _, a := range splitTop(targsText, ',') {
				at := w.resolveType(ctxPkg, strings.TrimSpace(a), g)
				if at.G == nil {
					g.fail("type argument %s of %s is not a Go type", a, text)
				}
				targs = append(targs, at.G)
			}
			inst, err := types.Instantiate(nil, named, targs, false)
			if err != nil {
				g.fail("cannot instantiate %s: %v", text, err)
			}
			return Ty{G: inst}
		}
	}
	return Ty{G: tn.Type()}
}

func (g *Gen) declSort(name string) {
	g.sc.DeclareOnce("sort:"+name, "(declare-sort "+name+" 0)")
}

func (g *Gen) tySort(t Ty) string {
	if t.G != nil {
		return g.sortOf(t.G)
	}
	if g.W.sorts[t.Spec] {
		g.declSort(t.Spec)
	}
	return t.Spec
}

// lookupFunc finds the SSA function for a key.
func (w *World) lookupFunc(key string) *ssa.Function {
	return w.funcs[key]
}

// identObj finds the object for an identifier position (used for DebugRef resolution).
func (w *World) objectOf(fn *ssa.Function, id *ast.Ident) types.Object {
	if fn.Pkg == nil {
		return nil
	}
	p := w.byPath[fn.Pkg.Pkg.Path()]
	if p == nil {
		return nil
	}
	return p.TypesInfo.ObjectOf(id)
}

// closeOnlyField reports whether v is (a load of) a struct field declared closeonly.
func (w *World) closeOnlyField(v ssa.Value) bool {
	if len(w.closeOnly) == 0 {
		return false
	}
	var st types.Type
	var idx int
	switch x := v.(type) {
	case *ssa.UnOp:
		fa, ok := x.X.(*ssa.FieldAddr)
		if !ok || x.Op != token.MUL {
			return false
		}
		st, idx = fa.X.Type().Underlying().(*types.Pointer).Elem(), fa.Field
	case *ssa.Field:
		st, idx = x.X.Type(), x.Field
	default:
		return false
	}
	return w.closeOnly[fieldKeyOf(st, idx)]
}

func fieldKeyOf(st types.Type, idx int) string {
	n, ok := types.Unalias(st).(*types.Named)
	if !ok || n.Obj().Pkg() == nil {
		return ""
	}
	s, ok := n.Underlying().(*types.Struct)
	if !ok || idx >= s.NumFields() {
		return ""
	}
	return n.Obj().Pkg().Path() + "." + n.Obj().Name() + "." + s.Field(idx).Name()
}

// checkCloseOnly enforces the discipline behind closeonly fields: the field is written only with a freshly made
// channel, and its value is used only to receive from it (select or <-), to close it, or in debug references.
func (w *World) checkCloseOnly() {
	if len(w.closeOnly) == 0 {
		return
	}
	bad := func(fn *ssa.Function, ins ssa.Instruction, why string) {
		w.protoErrs = append(w.protoErrs, fmt.Sprintf("%s: %s (%s)", funcKey(fn), why, w.fset.Position(ins.Pos())))
	}
	// A close-only channel may be handed on (to a parameter of a function whose body is loaded, into a closure, into
	// another struct field): the value is followed and on every path it may only be received from, closed, compared
	// or converted to a receive-only channel. Fields it is stored into ("derived" fields) are checked program-wide for
	// the same no-send discipline on everything loaded from them.
	seenVal := map[ssa.Value]bool{}
	derived := map[string]bool{}
	var derivedQueue []string
	var useOK func(fn *ssa.Function, v ssa.Value)
	var cellOK func(fn *ssa.Function, addr ssa.Value)
	cellOK = func(fn *ssa.Function, addr ssa.Value) {
		if seenVal[addr] {
			return
		}
		seenVal[addr] = true
		if addr.Referrers() == nil {
			return
		}
		for _, r := range *addr.Referrers() {
			switch u := r.(type) {
			case *ssa.DebugRef:
			case *ssa.Store:
				if u.Addr != addr {
					bad(fn, u, "address of a variable holding a close-only channel is stored")
				}
			case *ssa.UnOp:
				if u.Op == token.MUL {
					useOK(fn, u)
				} else {
					bad(fn, u, "address of a variable holding a close-only channel used")
				}
			case *ssa.MakeClosure:
				cf, _ := u.Fn.(*ssa.Function)
				for i, bnd := range u.Bindings {
					if bnd == addr {
						if cf != nil && i < len(cf.FreeVars) {
							cellOK(cf, cf.FreeVars[i])
						} else {
							bad(fn, u, "variable holding a close-only channel captured by an unknown closure")
						}
					}
				}
			default:
				bad(fn, r, "address of a variable holding a close-only channel escapes")
			}
		}
	}
	useOK = func(fn *ssa.Function, v ssa.Value) {
		if seenVal[v] {
			return
		}
		seenVal[v] = true
		if v.Referrers() == nil {
			return
		}
		for _, r := range *v.Referrers() {
			switch u := r.(type) {
			case *ssa.DebugRef:
			case *ssa.UnOp:
				if u.Op != token.ARROW {
					bad(fn, u, "close-only channel used in "+u.String())
				}
			case *ssa.BinOp:
				if u.Op != token.EQL && u.Op != token.NEQ {
					bad(fn, u, "close-only channel used in "+u.String())
				}
			case *ssa.Select:
				for _, st := range u.States {
					if st.Chan == v && st.Dir != types.RecvOnly {
						bad(fn, u, "send on a close-only channel")
					}
				}
			case *ssa.Send:
				bad(fn, u, "send on (or of) a close-only channel")
			case *ssa.Call:
				if b, ok := u.Call.Value.(*ssa.Builtin); ok && b.Name() == "close" {
					continue
				}
				// a parameter of receive-only channel type can only be received from (Go's type system)
				if recvOnlyArg(u, v) {
					continue
				}
				callee := u.Call.StaticCallee()
				if callee == nil || len(callee.Blocks) == 0 || u.Call.Value == v {
					bad(fn, u, "close-only channel passed to "+u.Call.Value.Name())
					continue
				}
				for i, a := range u.Call.Args {
					if a == v {
						if i < len(callee.Params) {
							useOK(callee, callee.Params[i])
						} else {
							bad(fn, u, "close-only channel passed to "+u.Call.Value.Name())
						}
					}
				}
			case *ssa.MakeClosure:
				cf, _ := u.Fn.(*ssa.Function)
				for i, bnd := range u.Bindings {
					if bnd == v {
						if cf != nil && i < len(cf.FreeVars) {
							useOK(cf, cf.FreeVars[i])
						} else {
							bad(fn, u, "close-only channel captured by an unknown closure")
						}
					}
				}
			case *ssa.ChangeType:
				if ch, ok := u.Type().Underlying().(*types.Chan); ok && ch.Dir() == types.RecvOnly {
					continue
				}
				useOK(fn, u)
			case *ssa.Store:
				if al, isAlloc := u.Addr.(*ssa.Alloc); isAlloc && u.Val == v {
					cellOK(fn, al) // a local variable (possibly captured by reference)
					continue
				}
				fa, ok := u.Addr.(*ssa.FieldAddr)
				if !ok || u.Val != v {
					bad(fn, u, "close-only channel stored outside a struct field")
					continue
				}
				k := fieldKeyOf(fa.X.Type().Underlying().(*types.Pointer).Elem(), fa.Field)
				if k == "" {
					bad(fn, u, "close-only channel stored into a field of an unnamed struct")
					continue
				}
				if !derived[k] && !w.closeOnly[k] {
					derived[k] = true
					derivedQueue = append(derivedQueue, k)
				}
			default:
				bad(fn, r, "close-only channel escapes through "+r.String())
			}
		}
	}
	defer func() {
		// loads of derived fields, program-wide
		for len(derivedQueue) > 0 {
			k := derivedQueue[0]
			derivedQueue = derivedQueue[1:]
			for _, fn := range w.funcs {
				for _, b := range fn.Blocks {
					for _, ins := range b.Instrs {
						switch x := ins.(type) {
						case *ssa.FieldAddr:
							if fieldKeyOf(x.X.Type().Underlying().(*types.Pointer).Elem(), x.Field) != k {
								continue
							}
							for _, r := range *x.Referrers() {
								switch u := r.(type) {
								case *ssa.DebugRef, *ssa.Store:
								case *ssa.UnOp:
									if u.Op == token.MUL {
										useOK(fn, u)
									} else {
										bad(fn, u, "address of a field holding a close-only channel used")
									}
								default:
									bad(fn, r, "address of a field holding a close-only channel escapes")
								}
							}
						case *ssa.Field:
							if fieldKeyOf(x.X.Type(), x.Field) == k {
								useOK(fn, x)
							}
						}
					}
				}
			}
		}
		sort.Strings(w.protoErrs)
	}()
	for _, fn := range w.funcs {
		if fn.Pkg == nil {
			continue
		}
		for _, b := range fn.Blocks {
			for _, ins := range b.Instrs {
				switch x := ins.(type) {
				case *ssa.FieldAddr:
					if !w.closeOnly[fieldKeyOf(x.X.Type().Underlying().(*types.Pointer).Elem(), x.Field)] {
						continue
					}
					for _, r := range *x.Referrers() {
						switch u := r.(type) {
						case *ssa.DebugRef:
						case *ssa.UnOp:
							if u.Op == token.MUL {
								useOK(fn, u)
							} else {
								bad(fn, u, "address of a close-only field used")
							}
						case *ssa.Store:
							if _, mk := u.Val.(*ssa.MakeChan); !mk || u.Addr != x {
								bad(fn, u, "close-only field assigned something other than a new channel")
							}
						default:
							bad(fn, r, "address of a close-only field escapes")
						}
					}
				case *ssa.Field:
					if w.closeOnly[fieldKeyOf(x.X.Type(), x.Field)] {
						useOK(fn, x)
					}
				}
			}
		}
	}
	sort.Strings(w.protoErrs)
}

// calledProved: contracts of functions under verification that are used at a call site of another function under
// verification (directly or through inlined helpers and closures). Only for those does the frame (modifies clauses)
// matter to anybody, so only those get frame obligations.
func (w *World) calledProvedSet() map[string]bool {
	if w.calledProved != nil {
		return w.calledProved
	}
	w.calledProved = map[string]bool{}
	proved := func(fc *FuncContract) bool { return fc != nil && !fc.Extern && !fc.AssumeOnly && !fc.Inline }
	seen := map[*ssa.Function]bool{}
	var visit func(fn *ssa.Function)
	visit = func(fn *ssa.Function) {
		if fn == nil || seen[fn] {
			return
		}
		seen[fn] = true
		for _, b := range fn.Blocks {
			for _, ins := range b.Instrs {
				ci, ok := ins.(ssa.CallInstruction)
				if !ok {
					continue
				}
				if _, isGo := ins.(*ssa.Go); isGo {
					// goroutines are not executed in the caller: their frame concerns nobody
					if mc, ok := ci.Common().Value.(*ssa.MakeClosure); ok {
						seen[mc.Fn.(*ssa.Function)] = true
					}
					continue
				}
				callee := ci.Common().StaticCallee()
				if callee == nil {
					continue
				}
				k := funcKey(callee)
				if fc := w.contracts[k]; proved(fc) {
					w.calledProved[k] = true
				} else if fc == nil || fc.Inline {
					visit(callee)
				}
			}
		}
		for _, a := range fn.AnonFuncs {
			visit(a)
		}
	}
	for k, fc := range w.contracts {
		if proved(fc) {
			visit(w.lookupFunc(k))
		}
	}
	return w.calledProved
}

// recvOnlyArg: every position at which v is an argument of the call has a parameter of receive-only channel type.
func recvOnlyArg(c *ssa.Call, v ssa.Value) bool {
	sig := c.Call.Signature()
	if sig == nil || c.Call.IsInvoke() {
		return false
	}
	found := false
	for i, a := range c.Call.Args {
		if a != v {
			continue
		}
		pi := i
		if sig.Recv() != nil {
			pi = i - 1
		}
		if pi < 0 || pi >= sig.Params().Len() || (sig.Variadic() && pi >= sig.Params().Len()-1) {
			return false
		}
		ch, ok := sig.Params().At(pi).Type().Underlying().(*types.Chan)
		if !ok || ch.Dir() != types.RecvOnly {
			return false
		}
		found = true
	}
	return found
}

package main

import (
	"fmt"
	"go/constant"
	"go/types"
	"os"
	"runtime/debug"
	"strings"

	"golang.org/x/tools/go/ssa"
)

// Obligation is one named proof goal: prefix of the script + reach + goal.
type Obligation struct {
	Name      string
	Kind      string // post, pre, inv-entry, inv-preserve, safety, frame, assert, cover
	Func      string
	Prefix    int    // number of script lines that form the context
	Reach     string // path condition
	Goal      string // formula to prove under reach
	Cover     bool   // if true, the query (reach) must be SAT
	Src       string // source of the clause
	Pos       string
	Side      bool // safety side condition (not a property obligation)
	TimeoutMs int
	Splits    []string // exhaustive case split (edge conditions of the nearest control-flow merge); used when the plain query is undecided
}

// State is the symbolic heap at a program point.
type State struct {
	heaps  map[string]Term // heap key -> array term; missing = entry heap
	defers []deferred
}

type deferred struct {
	flag string // Bool term: was the defer statement executed
	call *ssa.Defer
	fr   *Frame
	args []Term
	fn   Term
}

func (s *State) clone() *State {
	n := &State{heaps: make(map[string]Term, len(s.heaps))}
	for k, v := range s.heaps {
		n.heaps[k] = v
	}
	n.defers = append([]deferred(nil), s.defers...)
	return n
}

// Gen generates verification conditions for one top-level function.
type Gen struct {
	noBytesFrame bool // set while an array view is materialised cell by cell
	W            *World
	sc           *Script
	obls         []*Obligation
	fnName       string
	structs      map[string]string // type string -> datatype name
	structTy     map[string]*types.Struct
	tags         map[string]int
	tagTypes     []types.Type
	strLits      map[string]Term
	heapDecl     map[string]bool
	allocN       int
	curBase      string
	errs         []string
	tparams      map[string]bool
	absDecl      map[string]bool
	axiomsIn     bool
	depth        int
	usedAssumed  map[string]bool // external/assumed contracts used
	inlined      map[string]bool
	ghostSort    map[string]string
	dry          int
	wlog         *writeLog
	closures     map[string]*closureVal
	usedProved   map[string]bool
	inlineN      int
	goStmts      []string
	freshNames   map[string]bool
	blockingOps  []string
	curSplits    []string
	cellClosure  map[string]*closureVal // address of a function-typed variable -> the closure stored in it
	arrSync      map[string][2]string
	tparamTypes  map[string]*types.TypeParam
	viewArrs     []frameW  // leaf arrays whose element view was materialised (not real writes)
	frec         *[]frameW // when set, havocLoc records the locations it writes (frame check)
}

// frameW: one element of a function's frame: a predicate on the address r within heap component key.
type frameW struct{ key, pred string }

func NewGen(w *World, fnName string) *Gen {
	g := &Gen{W: w, sc: NewScript(), fnName: fnName, structs: map[string]string{}, structTy: map[string]*types.Struct{},
		tags: map[string]int{}, strLits: map[string]Term{}, heapDecl: map[string]bool{}, tparams: map[string]bool{},
		absDecl: map[string]bool{}, usedAssumed: map[string]bool{}, inlined: map[string]bool{}, ghostSort: map[string]string{},
		closures: map[string]*closureVal{}, usedProved: map[string]bool{}, freshNames: map[string]bool{}, arrSync: map[string][2]string{}, tparamTypes: map[string]*types.TypeParam{}}
	g.sc.Decl(preludeText)
	g.curBase = "allocBase"
	return g
}

type unsupported struct{ msg string }

func (g *Gen) fail(f string, a ...any) {
	if os.Getenv("GOWP_FAIL_STACK") != "" {
		debug.PrintStack()
	}
	panic(unsupported{fmt.Sprintf(f, a...)})
}

// ---------- sorts ----------

func (g *Gen) sortOf(t types.Type) string {
	switch t := t.(type) {
	case *types.Basic:
		switch {
		case t.Info()&types.IsBoolean != 0:
			return SBool
		case t.Info()&types.IsInteger != 0:
			return SInt
		case t.Info()&types.IsString != 0:
			return SStr
		case t.Info()&types.IsFloat != 0:
			return SReal
		case t.Kind() == types.UnsafePointer:
			return SRef
		case t.Kind() == types.UntypedNil:
			return SRef
		}
		g.fail("unsupported basic type %s", t)
	case *types.Pointer, *types.Map, *types.Chan, *types.Signature:
		return SRef
	case *types.Slice:
		return SSlice
	case *types.Interface:
		return SIface
	case *types.Named:
		if tp := t.TypeArgs(); tp != nil && tp.Len() > 0 {
			// instantiated generic: use underlying
		}
		return g.sortOfNamed(t)
	case *types.Alias:
		return g.sortOf(types.Unalias(t))
	case *types.Array:
		return arraySort(SInt, g.sortOf(t.Elem()))
	case *types.Struct:
		return g.structSort(t.String(), t)
	case *types.TypeParam:
		n := "TP_" + clean(t.Obj().Name())
		if !g.tparams[n] {
			g.tparams[n] = true
			g.sc.Decl("(declare-sort " + n + " 0)")
		}
		return n
	case *types.Tuple:
		g.fail("tuple has no sort")
	}
	g.fail("unsupported type %T %s", t, t)
	return ""
}

func (g *Gen) sortOfNamed(t *types.Named) string {
	u := t.Underlying()
	if st, ok := u.(*types.Struct); ok {
		return g.structSort(t.String(), st)
	}
	return g.sortOf(u)
}

func (g *Gen) structSort(key string, st *types.Struct) string {
	if n, ok := g.structs[key]; ok {
		return n
	}
	// declare field sorts first
	var fs []string
	for i := 0; i < st.NumFields(); i++ {
		fs = append(fs, g.sortOf(st.Field(i).Type()))
	}
	if n, ok := g.structs[key]; ok { // may have been declared recursively
		return n
	}
	short := key
	if i := strings.LastIndex(short, "/"); i >= 0 {
		short = short[i+1:]
	}
	if len(short) > 40 {
		short = short[:40]
	}
	name := fmt.Sprintf("S%d_%s", len(g.structs), clean(short))
	g.structs[key] = name
	g.structTy[name] = st
	var b strings.Builder
	fmt.Fprintf(&b, "(declare-datatypes ((%s 0)) (((mk%s", name, name)
	for i, s := range fs {
		fmt.Fprintf(&b, " (%s_f%d %s)", name, i, s)
	}
	b.WriteString("))))")
	if len(fs) == 0 {
		// SMT-LIB constructors without fields are constants
		b.Reset()
		fmt.Fprintf(&b, "(declare-datatypes ((%s 0)) (((mk%s))))", name, name)
	}
	g.sc.Decl(b.String())
	return name
}

func isStruct(t types.Type) (*types.Struct, bool) {
	st, ok := t.Underlying().(*types.Struct)
	return st, ok
}

// isLeafArray reports arrays stored as whole values (element type basic).
func isLeafArray(t types.Type) (*types.Array, bool) {
	a, ok := t.Underlying().(*types.Array)
	if !ok {
		return nil, false
	}
	if _, ok := a.Elem().Underlying().(*types.Basic); ok {
		return a, true
	}
	return nil, false
}

func basicOf(t types.Type) *types.Basic {
	b, _ := t.Underlying().(*types.Basic)
	return b
}

func isIntType(t types.Type) bool {
	b := basicOf(t)
	return b != nil && b.Info()&types.IsInteger != 0
}

// ---------- zero values / ranges ----------

func (g *Gen) zero(t types.Type) Term {
	s := g.sortOf(t)
	if _, ok := types.Unalias(t).(*types.TypeParam); ok {
		n := "zero_" + s
		g.sc.DeclareOnce(n, "(declare-const "+n+" "+s+")")
		return Term{n, s}
	}
	switch u := t.Underlying().(type) {
	case *types.Basic:
		switch s {
		case SBool:
			return Term{"false", s}
		case SInt:
			return Term{"0", s}
		case SStr:
			return g.strLit("")
		case SReal:
			return Term{"0.0", s}
		case SRef:
			return Term{"Nil", s}
		}
	case *types.Pointer, *types.Map, *types.Chan, *types.Signature:
		return Term{"Nil", s}
	case *types.Slice:
		return Term{"nilSlice", s}
	case *types.Interface:
		return Term{"nilIface", s}
	case *types.Array:
		z := g.zero(u.Elem())
		return Term{"((as const " + s + ") " + z.S + ")", s}
	case *types.Struct:
		if u.NumFields() == 0 {
			return Term{"mk" + s, s}
		}
		var fs []string
		for i := 0; i < u.NumFields(); i++ {
			fs = append(fs, g.zero(u.Field(i).Type()).S)
		}
		return Term{"(mk" + s + " " + strings.Join(fs, " ") + ")", s}
	case *types.TypeParam:
		// zero of a type parameter: a distinguished constant
		n := "zero_" + s
		g.sc.DeclareOnce(n, "(declare-const "+n+" "+s+")")
		return Term{n, s}
	}
	if _, ok := t.(*types.TypeParam); ok {
		n := "zero_" + s
		g.sc.DeclareOnce(n, "(declare-const "+n+" "+s+")")
		return Term{n, s}
	}
	g.fail("zero of %s", t)
	return Term{}
}

// typeInv returns the formula stating that term v is a well-typed value of t ("true" if none).
func (g *Gen) typeInv(v string, t types.Type) string {
	if _, ok := types.Unalias(t).(*types.TypeParam); ok {
		return "true"
	}
	switch u := t.Underlying().(type) {
	case *types.Basic:
		if lo, hi, ok := intRange(u); ok {
			return "(and (<= " + intLit(lo) + " " + v + ") (<= " + v + " " + hi + "))"
		}
		if u.Info()&types.IsString != 0 {
			return "(>= (strlen " + v + ") 0)"
		}
	case *types.Slice:
		return "(and (>= (soff " + v + ") 0) (>= (slen " + v + ") 0) (>= (scap " + v + ") (slen " + v + ")) (<= (+ (soff " + v + ") (scap " + v + ")) 4611686018427387904) (=> (= (sarr " + v + ") Nil) (= (scap " + v + ") 0)))"
	case *types.Interface:
		return "(=> (= (itag " + v + ") 0) (= " + v + " nilIface))"
	case *types.Struct:
		s := g.sortOf(t)
		var fs []string
		for i := 0; i < u.NumFields(); i++ {
			fs = append(fs, g.typeInv(fmt.Sprintf("(%s_f%d %s)", s, i, v), u.Field(i).Type()))
		}
		return and(fs...)
	}
	return "true"
}

// ---------- strings / tags ----------

func (g *Gen) strLit(v string) Term {
	if t, ok := g.strLits[v]; ok {
		return t
	}
	n := fmt.Sprintf("str!%d", len(g.strLits))
	g.sc.Decl(fmt.Sprintf("(declare-const %s Str) ; %q", n, trunc(v, 60)))
	g.sc.Decl(fmt.Sprintf("(assert (and (= (strid %s) %d) (= (strlen %s) %d)))", n, len(g.strLits), n, len(v)))
	t := Term{n, SStr}
	g.strLits[v] = t
	return t
}

func trunc(s string, n int) string {
	s = strings.ReplaceAll(s, "\n", " ")
	if len(s) > n {
		return s[:n] + "..."
	}
	return s
}

func (g *Gen) tagOf(t types.Type) int {
	k := t.String()
	if n, ok := g.tags[k]; ok {
		return n
	}
	n := len(g.tags) + 1
	g.tags[k] = n
	g.tagTypes = append(g.tagTypes, t)
	g.sc.Comment("type tag %d = %s", n, k)
	return n
}

// ---------- heap ----------

func (g *Gen) heapKeyFor(sort string) string { return "H_" + sortKey(sort) }

// heapKeyT: the heap component holding cells of Go type t. Cells of different (underlying) pointer or
// integer types can never alias in Go without unsafe, so they get separate components.
func (g *Gen) heapKeyT(t types.Type) string {
	s := g.sortOf(t)
	switch s {
	case SInt:
		if b := basicOf(t); b != nil {
			n := b.Name()
			switch b.Kind() {
			case types.Uint8:
				n = "uint8"
			case types.Int32:
				n = "int32"
			}
			return "H_Int_" + n
		}
	case SRef:
		n := clean(types.Unalias(t).Underlying().String())
		if len(n) > 60 {
			h := 0
			for _, c := range n {
				h = (h*31 + int(c)) & 0xffffff
			}
			n = fmt.Sprintf("%s_%x", n[len(n)-50:], h)
		}
		return "H_Ref_" + n
	}
	return "H_" + sortKey(s)
}

// heap returns the current array term for heap key (declaring the entry heap lazily).
func (g *Gen) heap(st *State, key string, elemSort string) Term {
	if t, ok := st.heaps[key]; ok {
		return t
	}
	return g.entryHeap(key, elemSort)
}

func (g *Gen) entryHeap(key, elemSort string) Term {
	name := key + "!0"
	asort := arraySort(SRef, elemSort)
	if !g.heapDecl[key] {
		g.heapDecl[key] = true
		g.sc.Decl(fmt.Sprintf("(declare-const %s %s)", name, asort))
		g.heapWF(name, elemSort, "allocBase", true)
	}
	return Term{name, asort}
}

// heapWF asserts that references stored in heap array h are older than base.
func (g *Gen) heapWF(h, elemSort, base string, global bool) {
	f := ""
	switch elemSort {
	case SRef:
		f = fmt.Sprintf("(forall ((a Ref)) (! (<= (rootOid (select %s a)) %s) :pattern ((select %s a))))", h, base, h)
	case SSlice:
		f = fmt.Sprintf("(forall ((a Ref)) (! (<= (rootOid (sarr (select %s a))) %s) :pattern ((select %s a))))", h, base, h)
	case SIface:
		f = fmt.Sprintf("(forall ((a Ref)) (! (<= (rootOid (iref (select %s a))) %s) :pattern ((select %s a))))", h, base, h)
	default:
		if strings.HasPrefix(elemSort, "(Array ") && arrayElemSort(elemSort) == SRef {
			ks := arrayKeySort(elemSort)
			f = fmt.Sprintf("(forall ((a Ref) (k %s)) (! (<= (rootOid (select (select %s a) k)) %s) :pattern ((select (select %s a) k))))", ks, h, base, h)
		} else if strings.HasPrefix(elemSort, "(Array ") && arrayElemSort(elemSort) == SSlice {
			// map values that are slices: their backing arrays are not newer than the base either
			ks := arrayKeySort(elemSort)
			f = fmt.Sprintf("(forall ((a Ref) (k %s)) (! (<= (rootOid (sarr (select (select %s a) k))) %s) :pattern ((select (select %s a) k))))", ks, h, base, h)
		} else if strings.HasPrefix(elemSort, "(Array ") && arrayKeySort(elemSort) == SRef && arrayElemSort(elemSort) == SBool {
			// a ghost set of references: its members are not newer than the base (sets grow by adding existing objects)
			f = fmt.Sprintf("(forall ((a Ref) (k Ref)) (! (=> (select (select %s a) k) (<= (rootOid k) %s)) :pattern ((select (select %s a) k))))", h, base, h)
		} else {
			return
		}
	}
	if global {
		g.sc.Decl("(assert " + f + ")")
	} else {
		g.sc.Assume(f)
	}
}

func (g *Gen) setHeap(st *State, key string, t Term) {
	st.heaps[key] = g.sc.Define(key, t)
}

// loadLeaf / storeLeaf operate on a leaf cell (non-struct) of Go type t at address a.
func (g *Gen) loadLeaf(st *State, a string, t types.Type) Term {
	s := g.sortOf(t)
	h := g.heap(st, g.heapKeyT(t), s)
	return Term{sel(h.S, a), s}
}

func (g *Gen) storeLeaf(st *State, a string, t types.Type, v string) {
	s := g.sortOf(t)
	g.writeCell(st, g.heapKeyT(t), s, a, v)
}

// load reads a value of type t from the cell at address a (decomposing structs).
func (g *Gen) load(st *State, a string, t types.Type) Term {
	if u, ok := isStruct(t); ok {
		s := g.sortOf(t)
		if u.NumFields() == 0 {
			return Term{"mk" + s, s}
		}
		var fs []string
		for i := 0; i < u.NumFields(); i++ {
			fs = append(fs, g.load(st, fmt.Sprintf("(Fld %s %d)", a, i), u.Field(i).Type()).S)
		}
		return Term{"(mk" + s + " " + strings.Join(fs, " ") + ")", s}
	}
	if arr, ok := t.Underlying().(*types.Array); ok {
		if _, leaf := isLeafArray(t); !leaf {
			// an array of structs read as a whole value (a large configuration struct passed by value): its
			// content is not modelled; the load yields an unconstrained value (an over-approximation)
			_ = arr
			return g.sc.Fresh("bigarr", g.sortOf(t))
		}
	}
	return g.loadLeaf(st, a, t)
}

func (g *Gen) store(st *State, a string, t types.Type, v string) {
	if u, ok := isStruct(t); ok {
		s := g.sortOf(t)
		for i := 0; i < u.NumFields(); i++ {
			g.store(st, fmt.Sprintf("(Fld %s %d)", a, i), u.Field(i).Type(), fmt.Sprintf("(%s_f%d %s)", s, i, v))
		}
		return
	}
	if arr, ok := t.Underlying().(*types.Array); ok {
		if _, leaf := isLeafArray(t); !leaf {
			// an array of structs written as a whole value (part of a large configuration struct copied by value):
			// its content is not modelled (see load); the element cells receive unconstrained values, so that a
			// later element-wise read sees nothing stale (an over-approximation)
			if arr.Len() > 64 {
				g.fail("whole store of large non-leaf array %s", t)
			}
			for k := int64(0); k < arr.Len(); k++ {
				fv := g.sc.Fresh("bigelem", g.sortOf(arr.Elem()))
				g.store(st, fmt.Sprintf("(Elem %s %d)", a, k), arr.Elem(), fv.S)
			}
			return
		}
	}
	g.storeLeaf(st, a, t, v)
}

// zeroInit writes zero values into the cell at a.
func (g *Gen) zeroInit(st *State, a string, t types.Type) {
	if u, ok := isStruct(t); ok {
		for i := 0; i < u.NumFields(); i++ {
			g.zeroInit(st, fmt.Sprintf("(Fld %s %d)", a, i), u.Field(i).Type())
		}
		return
	}
	if arr, ok := t.Underlying().(*types.Array); ok {
		if _, leaf := isLeafArray(t); !leaf {
			if arr.Len() > 64 {
				g.fail("zero init of large array %s", t)
			}
			for k := int64(0); k < arr.Len(); k++ {
				g.zeroInit(st, fmt.Sprintf("(Elem %s %d)", a, k), arr.Elem())
			}
			return
		}
	}
	g.storeLeaf(st, a, t, g.zero(t).S)
}

// newObj returns a fresh object reference.
func (g *Gen) newObj() string {
	g.allocN++
	return fmt.Sprintf("(Obj (+ %s %d))", g.curBase, g.allocN)
}

// ---------- ghost ----------

// ghostHeapKey returns the heap key and element sort of ghost field name.
func (g *Gen) ghostField(name string) (key string, elemSort string, gf *GhostField) {
	gf = g.W.ghosts[name]
	if gf == nil {
		g.fail("unknown ghost field %s", name)
	}
	if s, ok := g.ghostSort[name]; ok {
		return "G_" + clean(name[1:]), s, gf
	}
	ty := g.W.resolveType(gf.Pkg, gf.Type, g)
	s := g.tySort(ty)
	g.ghostSort[name] = s
	return "G_" + clean(name[1:]), s, gf
}

// ---------- constants ----------

func (g *Gen) constTerm(v constant.Value, t types.Type) Term {
	s := g.sortOf(t)
	if v == nil {
		return g.zero(t)
	}
	switch v.Kind() {
	case constant.Bool:
		if constant.BoolVal(v) {
			return Term{"true", SBool}
		}
		return Term{"false", SBool}
	case constant.Int:
		if s == SReal {
			return Term{intLit(v.ExactString()) + ".0", s}
		}
		return Term{intLit(v.ExactString()), SInt}
	case constant.String:
		return g.strLit(constant.StringVal(v))
	case constant.Float:
		if s == SInt {
			i, _ := constant.Int64Val(constant.ToInt(v))
			return Term{intLit(fmt.Sprint(i)), SInt}
		}
		f, _ := constant.Float64Val(v)
		str := fmt.Sprintf("%f", f)
		if strings.HasPrefix(str, "-") {
			str = "(- " + str[1:] + ")"
		}
		return Term{str, SReal}
	}
	g.fail("constant kind %v", v.Kind())
	return Term{}
}

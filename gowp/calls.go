package main

import (
	"fmt"
	"go/ast"
	"go/constant"
	"go/token"
	"go/types"
	"os"
	"sort"
	"strconv"
	"strings"

	"golang.org/x/tools/go/ssa"
)

type closureVal struct {
	fn       *ssa.Function
	bindings []Term
}

const maxInlineDepth = 8

func (fr *Frame) depth() int {
	d := 0
	for p := fr.parent; p != nil; p = p.parent {
		d++
	}
	return d
}

// execCall handles a call instruction and returns its results.
func (fr *Frame) execCall(ins ssa.Instruction, cc *ssa.CallCommon, c *blockCtx) []Term {
	g := fr.g
	var args []Term
	for _, a := range cc.Args {
		args = append(args, fr.val(a))
	}
	sig := cc.Signature()
	if cc.IsInvoke() {
		recv := fr.val(cc.Value)
		if recv.Sort == SIface {
			fr.safetyAt("nil", c.reach, not(eq(recv.S, "nilIface")), ins)
		}
		key, fc := g.W.ifaceContract(cc.Value.Type(), cc.Method)
		// a contract on the struct field holding the interface value takes precedence: "(*pkg.T).Field.Method"
		if fk := fieldOf(cc.Value); fk != "" {
			if ffc := g.W.contracts[fk+"."+cc.Method.Name()]; ffc != nil {
				key, fc = fk+"."+cc.Method.Name(), ffc
			}
		}
		if fc == nil {
			if g.W.ignored(key) {
				return fr.ignoredCall(sig, key, c, ins)
			}
			g.fail("no contract for interface method %s (called in %s)", key, funcKey(fr.fn))
		}
		if fc.Inline && fc.Extern {
			g.fail("inline on interface contract %s", key)
		}
		return fr.applyContract(fc, key, sig, append([]Term{recv}, args...), append([]types.Type{cc.Value.Type()}, sigParamTypes(sig)...), c, ins)
	}
	switch v := cc.Value.(type) {
	case *ssa.Builtin:
		return fr.execBuiltin(v, cc, args, c, ins)
	case *ssa.Function:
		if m, obj := fr.monitorOf(v, cc); m != nil {
			if v.Name() == "Unlock" {
				fr.monitorCheck(m, obj, c, "unlock")
			}
			res := fr.callStatic(v, nil, args, sig, c, ins)
			if v.Name() == "Lock" {
				fr.monitorEnter(m, obj, c)
			}
			return res
		}
		// a contract on the struct field holding the receiver takes precedence: "(*pkg.T).Field.Method"
		if v.Signature.Recv() != nil && len(cc.Args) > 0 {
			if fk := fieldOf(cc.Args[0]); fk != "" {
				if ffc := g.W.contracts[fk+"."+v.Name()]; ffc != nil {
					var pts []types.Type
					for _, a := range cc.Args {
						pts = append(pts, a.Type())
					}
					return fr.applyContract(ffc, fk+"."+v.Name(), v.Signature, args, pts, c, ins)
				}
			}
		}
		return fr.callStatic(v, nil, args, sig, c, ins)
	case *ssa.MakeClosure:
		cl := fr.closureOf[v]
		return fr.callStatic(cl.fn, cl.bindings, args, sig, c, ins)
	}
	// dynamic call through a function value
	fv := fr.val(cc.Value)
	// range-over-func: seq(yield) where seq is the result of a call whose contract declares it a sequence and
	// yield is the synthetic loop-body closure
	if pc, ok := cc.Value.(*ssa.Call); ok && len(args) == 1 {
		if k := fr.calleeKey(&pc.Call); k != "" {
			if sfc := g.W.contracts[k+"#ret0"]; sfc != nil && sfc.Seq {
				if ycl, ok := g.closures[args[0].S]; ok {
					fr.seqCall(sfc, k+"#ret0", ycl, c, ins)
					return nil
				}
			}
		}
	}
	if cl, ok := g.closures[fv.S]; ok {
		return fr.callStatic(cl.fn, cl.bindings, args, sig, c, ins)
	}
	// a function-typed local variable (or captured variable) that holds one known closure
	if u, ok := cc.Value.(*ssa.UnOp); ok && u.Op == token.MUL {
		if cl := g.cellClosure[fr.val(u.X).S]; cl != nil {
			return fr.callStatic(cl.fn, cl.bindings, args, sig, c, ins)
		}
	}
	// a phi over closures made in this function: run each candidate under the condition that it is the callee
	if phi, ok := cc.Value.(*ssa.Phi); ok {
		var cands []*closureVal
		var cterms []string
		all := true
		for _, e := range phi.Edges {
			t := fr.val(e)
			cl, ok := g.closures[t.S]
			if !ok {
				all = false
				break
			}
			dup := false
			for _, ct := range cterms {
				dup = dup || ct == t.S
			}
			if !dup {
				cands = append(cands, cl)
				cterms = append(cterms, t.S)
			}
		}
		if all && len(cands) > 0 {
			before := c.st
			beforeReach := c.reach
			var conds []string
			var sts []*State
			var results [][]Term
			var reaches []string
			for i, cl := range cands {
				cond := eq(fv.S, cterms[i])
				run := &blockCtx{st: before.clone(), reach: and(beforeReach, cond)}
				res := fr.callStatic(cl.fn, cl.bindings, args, sig, run, ins)
				conds = append(conds, cond)
				sts = append(sts, run.st)
				results = append(results, res)
				reaches = append(reaches, and(cond, run.reach))
			}
			c.st = g.mergeStates(conds, sts)
			c.reach = and(beforeReach, or(reaches...))
			var out []Term
			for k := 0; k < sig.Results().Len(); k++ {
				var ts []Term
				for _, r := range results {
					ts = append(ts, r[k])
				}
				out = append(out, mergeTerms(conds, ts))
			}
			return out
		}
	}
	// function-typed field or parameter with a field contract
	if key, fc := fr.funcValueContract(cc.Value); fc != nil {
		return fr.applyContract(fc, key, sig, args, sigParamTypes(sig), c, ins)
	} else if key != "" && g.W.ignored(key) {
		return fr.ignoredCall(sig, key, c, ins)
	} else if key != "" {
		g.fail("no contract for function value %s (called in %s)", key, funcKey(fr.fn))
	}
	// a value of a named function type (e.g. a functional option): contract "(pkg.Type).call"
	if n, ok := types.Unalias(cc.Value.Type()).(*types.Named); ok && n.Obj().Pkg() != nil {
		key := "(" + n.Obj().Pkg().Path() + "." + n.Obj().Name() + ").call"
		if fc := g.W.contracts[key]; fc != nil {
			return fr.applyContract(fc, key, sig, args, sigParamTypes(sig), c, ins)
		}
	}
	detail := ""
	if u, ok := cc.Value.(*ssa.UnOp); ok {
		detail = fmt.Sprintf(" [load of %s (%T) = %s]", u.X.Name(), u.X, fr.val(u.X).S)
	}
	g.fail("dynamic call through %s (%T) in %s not supported%s", cc.Value.Name(), cc.Value, funcKey(fr.fn), detail)
	return nil
}

func sigParamTypes(sig *types.Signature) []types.Type {
	var ts []types.Type
	for i := 0; i < sig.Params().Len(); i++ {
		ts = append(ts, sig.Params().At(i).Type())
	}
	return ts
}

// funcValueContract finds a "field contract" for a function value loaded from a struct field:
// keyed as "(pkg.Type).field" like a method.
func (fr *Frame) funcValueContract(v ssa.Value) (string, *FuncContract) {
	g := fr.g
	if u, ok := v.(*ssa.UnOp); ok {
		if fa, ok := u.X.(*ssa.FieldAddr); ok {
			st := fa.X.Type().Underlying().(*types.Pointer).Elem()
			if n, ok := types.Unalias(st).(*types.Named); ok {
				f := st.Underlying().(*types.Struct).Field(fa.Field)
				key := "(" + n.Obj().Pkg().Path() + "." + n.Obj().Name() + ")." + f.Name()
				return key, g.W.contracts[key]
			}
		}
	}
	if f, ok := v.(*ssa.Field); ok {
		st := f.X.Type()
		if n, ok := types.Unalias(st).(*types.Named); ok {
			fl := st.Underlying().(*types.Struct).Field(f.Field)
			key := "(" + n.Obj().Pkg().Path() + "." + n.Obj().Name() + ")." + fl.Name()
			return key, g.W.contracts[key]
		}
	}
	if p, ok := v.(*ssa.Parameter); ok {
		key := funcKey(fr.fn) + "#" + p.Name()
		return key, g.W.contracts[key]
	}
	// a function value returned by a call: keyed by the producing callee and the result position,
	// "<callee key>#ret<k>" (e.g. a cancel function)
	if ex, ok := v.(*ssa.Extract); ok {
		if call, ok := ex.Tuple.(*ssa.Call); ok {
			if k := fr.calleeKey(&call.Call); k != "" {
				key := fmt.Sprintf("%s#ret%d", k, ex.Index)
				return key, g.W.contracts[key]
			}
		}
	}
	return "", nil
}

// calleeKey names the callee of a call for contract lookup (static functions and interface methods).
func (fr *Frame) calleeKey(cc *ssa.CallCommon) string {
	if cc.IsInvoke() {
		key, _ := fr.g.W.ifaceContract(cc.Value.Type(), cc.Method)
		return key
	}
	if f, ok := cc.Value.(*ssa.Function); ok {
		return funcKey(f)
	}
	if _, isExtract := cc.Value.(*ssa.Extract); !isExtract {
		if k, _ := fr.funcValueContract(cc.Value); k != "" {
			return k // a function-typed field
		}
	}
	return ""
}

// ifaceContract looks up the contract of an interface method, by static receiver type first.
func (w *World) ifaceContract(recvT types.Type, m *types.Func) (string, *FuncContract) {
	var keys []string
	if n, ok := types.Unalias(recvT).(*types.Named); ok && n.Obj().Pkg() != nil {
		keys = append(keys, "("+n.Obj().Pkg().Path()+"."+n.Obj().Name()+")."+m.Name())
	} else if n, ok := types.Unalias(recvT).(*types.Named); ok {
		keys = append(keys, "("+n.Obj().Name()+")."+m.Name()) // universe: error
	}
	if tp, ok := recvT.(*types.TypeParam); ok {
		// method on a type parameter: use the constraint interface
		if n, ok := types.Unalias(tp.Constraint()).(*types.Named); ok && n.Obj().Pkg() != nil {
			keys = append(keys, "("+n.Obj().Pkg().Path()+"."+n.Obj().Name()+")."+m.Name())
		}
	}
	keys = append(keys, stripTypeArgs(m.FullName()))
	for _, k := range keys {
		if fc := w.contracts[k]; fc != nil {
			return k, fc
		}
	}
	return keys[0], nil
}

func (fr *Frame) safetyAt(kind, reach, goal string, ins ssa.Instruction) {
	fr.safety(kind, reach, goal, ins)
}

func (fr *Frame) freshResults(sig *types.Signature, why string) []Term {
	g := fr.g
	var out []Term
	for i := 0; i < sig.Results().Len(); i++ {
		t := sig.Results().At(i).Type()
		v := g.sc.Fresh("res_"+lastName(why), g.sortOf(t))
		g.sc.Assume(g.typeInv(v.S, t))
		out = append(out, v)
	}
	return out
}

// ignoredCall: a call the contracts declare to have no effect on modelled state (loggers). It still is an anchor
// for "assert ... at before|after call Name#k" clauses.
func (fr *Frame) ignoredCall(sig *types.Signature, key string, c *blockCtx, ins ssa.Instruction) []Term {
	fr.callOrd["call:"+key]++
	site := fmt.Sprintf("%s#%d", lastName(key), fr.callOrd["call:"+key]-1)
	// text anchors: Name~"substring of a constant string argument" (robust against reordering of log calls)
	var texts []string
	if ci, ok := ins.(ssa.CallInstruction); ok {
		for _, a := range ci.Common().Args {
			if k, ok := a.(*ssa.Const); ok && k.Value != nil && k.Value.Kind() == constant.String {
				texts = append(texts, constant.StringVal(k.Value))
			}
		}
	}
	fire := func(when string, res []Term) {
		fr.anchorBoth(when, site, ins, c, res)
		if fr.contract == nil {
			return
		}
		prefix := when + " call " + lastName(key) + "~\""
		done := map[string]bool{}
		for _, a := range fr.contract.Asserts {
			if !strings.HasPrefix(a.Anchor, prefix) || !strings.HasSuffix(a.Anchor, "\"") || done[a.Anchor] {
				continue
			}
			done[a.Anchor] = true
			want := a.Anchor[len(prefix) : len(a.Anchor)-1]
			for _, t := range texts {
				if strings.Contains(t, want) {
					fr.anchor(a.Anchor, c, res)
					break
				}
			}
		}
	}
	fire("before", nil)
	res := fr.freshResults(sig, key)
	fire("after", res)
	return res
}

func lastName(k string) string {
	if i := strings.LastIndexAny(k, "./)"); i >= 0 {
		return k[i+1:]
	}
	return k
}

// callStatic: call of a known function (possibly a closure with bindings).
func (fr *Frame) callStatic(fn *ssa.Function, bindings []Term, args []Term, sig *types.Signature, c *blockCtx, ins ssa.Instruction) []Term {
	g := fr.g
	key := funcKey(fn)
	if res, ok := fr.engineBuiltin(key, fn, args, sig, c, ins); ok {
		return res
	}
	fc := g.W.contracts[key]
	if fc != nil && fc.CallsArg > 0 && fc.CallsArg-1 < len(args) {
		if ycl, ok := g.closures[args[fc.CallsArg-1].S]; ok {
			fr.seqCall(fc, key, ycl, c, ins)
			return fr.freshResults(sig, key)
		}
		g.fail("calls-arg contract of %s: argument %d is not a function literal of the caller", key, fc.CallsArg-1)
	}
	if fc != nil && !fc.Inline {
		var pts []types.Type
		for _, p := range fn.Params {
			pts = append(pts, p.Type())
		}
		if len(fn.Params) == 0 && len(args) > 0 {
			// external function without body: types from signature
			if sig.Recv() != nil {
				pts = append(pts, sig.Recv().Type())
			}
			pts = append(pts, sigParamTypes(sig)...)
		}
		if !fc.Extern && !fc.AssumeOnly {
			g.usedProved[key] = true
		} else {
			g.usedAssumed[key] = true
		}
		// a function literal with a contract of its own: its captured variables are named in that contract
		fr.pendingFree = nil
		if fn.Parent() != nil && len(bindings) == len(fn.FreeVars) {
			fr.pendingFree = map[string]Binding{}
			for i, fv := range fn.FreeVars {
				if p, ok := fv.Type().Underlying().(*types.Pointer); ok {
					fr.pendingFree[fv.Name()] = Binding{g.load(c.st, bindings[i].S, p.Elem()), goTy(p.Elem())}
				} else {
					fr.pendingFree[fv.Name()] = Binding{bindings[i], goTy(fv.Type())}
				}
			}
		}
		defer func() { fr.pendingFree = nil }()
		return fr.applyContract(fc, key, fn.Signature, args, pts, c, ins)
	}
	if g.W.ignored(key) {
		return fr.ignoredCall(sig, key, c, ins)
	}
	if len(fn.Blocks) > 0 && (fc != nil && fc.Inline || fn.Parent() != nil || g.W.autoInline(fn)) {
		if fr.depth() >= maxInlineDepth {
			g.fail("inline depth exceeded at %s", key)
		}
		return fr.inline(fn, bindings, args, c, ins)
	}
	if pureStdFunc(fn) {
		// a standard-library function over strings, numbers and booleans only (strings.Contains, strconv.Itoa,
		// ...): no memory it could change; its result is an unknown value of its type
		g.usedAssumed["pure standard-library function "+key] = true
		return fr.ignoredCall(sig, key, c, ins)
	}
	g.fail("no contract for %s (called in %s)", key, funcKey(fr.fn))
	return nil
}

// pureStdFunc: a package-level function of the standard library all of whose parameters and results are strings,
// numbers or booleans.
func pureStdFunc(fn *ssa.Function) bool {
	if fn.Pkg == nil || fn.Signature.Recv() != nil {
		return false
	}
	path := fn.Pkg.Pkg.Path()
	first := path
	if i := strings.Index(path, "/"); i >= 0 {
		first = path[:i]
	}
	if strings.Contains(first, ".") {
		return false // not the standard library
	}
	switch path {
	case "os", "time", "sync", "sync/atomic", "runtime", "math/rand", "crypto/rand", "log", "syscall":
		return false
	}
	basic := func(t types.Type) bool {
		b, ok := t.Underlying().(*types.Basic)
		return ok && b.Kind() != types.UnsafePointer && b.Kind() != types.Uintptr
	}
	ps, rs := fn.Signature.Params(), fn.Signature.Results()
	for i := 0; i < ps.Len(); i++ {
		if !basic(ps.At(i).Type()) {
			return false
		}
	}
	for i := 0; i < rs.Len(); i++ {
		if !basic(rs.At(i).Type()) {
			return false
		}
	}
	return rs.Len() > 0
}

// autoInline: small loop-free functions of the repository may be inlined when they have no contract.
func (w *World) autoInline(fn *ssa.Function) bool {
	if fn.Pkg == nil && fn.Origin() == nil {
		return false
	}
	p := fn.Pkg
	if p == nil {
		p = fn.Origin().Pkg
	}
	if p == nil || !strings.HasPrefix(p.Pkg.Path(), "github.com/lightninglabs/neutrino") {
		return false
	}
	if len(fn.Blocks) > 12 {
		return false
	}
	for _, b := range fn.Blocks {
		for _, s := range b.Succs {
			if s.Dominates(b) {
				return false
			}
		}
	}
	return true
}

// inline executes the body of fn in the caller's state.
func (fr *Frame) inline(fn *ssa.Function, bindings []Term, args []Term, c *blockCtx, ins ssa.Instruction) []Term {
	g := fr.g
	g.inlineN++
	prefix := fmt.Sprintf("%s%s_%d_", fr.prefix, clean(fn.Name()), g.inlineN)
	sub := g.newFrame(fn, fr, prefix)
	g.inlined[funcKey(fn)] = true
	if len(args) != len(fn.Params) {
		g.fail("inline %s: %d args for %d params", fn, len(args), len(fn.Params))
	}
	for i, p := range fn.Params {
		sub.vals[p] = args[i]
		sub.params[p.Name()] = Binding{args[i], goTy(p.Type())}
	}
	for i, fv := range fn.FreeVars {
		if i < len(bindings) {
			sub.vals[fv] = bindings[i]
		}
	}
	g.sc.Comment(">>> inline %s", funcKey(fn))
	// an inlined call is an anchor like any other call
	fr.callOrd["call:"+funcKey(fn)]++
	site := fmt.Sprintf("%s#%d", lastName(funcKey(fn)), fr.callOrd["call:"+funcKey(fn)]-1)
	fr.anchorArgs = args
	fr.anchorBoth("before", site, ins, c, nil)
	fr.anchorArgs = nil
	exit, res, rr := sub.execBody(c.st, c.reach)
	g.sc.Comment("<<< end inline %s", funcKey(fn))
	c.st = exit
	c.reach = rr
	fr.anchorBoth("after", site, ins, c, res)
	// deferred calls registered inside are run by the callee's own RunDefers
	return res
}

// applyContract: assert requires, havoc modifies, assume ensures.
func (fr *Frame) applyContract(fc *FuncContract, key string, sig *types.Signature, args []Term, ptypes []types.Type, c *blockCtx, ins ssa.Instruction) []Term {
	g := fr.g
	if fc.Extern || fc.AssumeOnly {
		g.usedAssumed[key] = true
	}
	fr.callOrd["call:"+key]++
	ord := fr.callOrd["call:"+key] - 1
	site := fmt.Sprintf("%s#%d", lastName(key), ord)
	g.sc.Comment("call %s", key)
	env := &Env{g: g, pkg: fc.Pkg, vars: map[string]Binding{}, st: c.st}
	if env.pkg == "" {
		env.pkg = fr.pkg
	}
	// parameter names: from the contract header, else p0, p1...
	names := fc.ParamNames
	if fc.Recv != "" && len(names) == len(args)+1 {
		names = names[1:] // contract on a function-typed field: the "receiver" is not an argument
	}
	if len(names) != len(args) {
		// try names from the SSA function
		if fn := g.W.lookupFunc(key); fn != nil && len(fn.Params) == len(args) {
			names = nil
			for _, p := range fn.Params {
				names = append(names, p.Name())
			}
		} else {
			g.fail("contract %s: header lists %d parameters (incl. receiver), call has %d", key, len(names), len(args))
		}
	}
	for i, a := range args {
		var ty Ty
		if i < len(ptypes) {
			ty = goTy(ptypes[i])
		}
		env.vars[names[i]] = Binding{a, ty}
	}
	for n, b := range fr.pendingFree {
		if _, taken := env.vars[n]; !taken {
			env.vars[n] = b // values of the captured variables at the call (a contract on a function literal)
		}
	}
	if (fc.Extern || fc.AssumeOnly) && g.dry == 0 {
		g.obls = append(g.obls, &Obligation{Name: fr.oname("cover@"+site, "before"), Kind: "cover", Func: g.fnName, Prefix: g.sc.Len(), Reach: c.reach, Goal: "true", Cover: true})
	}
	old := c.st.clone()
	env.old = old
	floor := fmt.Sprintf("(+ %s %d)", g.curBase, g.allocN)
	env.freshFloor = floor
	// fire anchored asserts "before call"
	fr.anchorArgs = args
	fr.anchorBoth("before", site, ins, c, nil)
	fr.anchorArgs = nil
	for i, rq := range fc.Requires {
		label := rq.Label
		if label == "" {
			label = fmt.Sprint(i)
		}
		for ci, conj := range splitConj(rq.E) {
			l := label
			if ci > 0 {
				l = fmt.Sprintf("%s.%d", label, ci)
			}
			f := env.trBool(conj)
			g.oblige("pre", fr.oname("pre@"+site, l), c.reach, f, rq.Src, false)
			// once asserted, the precondition may be used (assert-then-assume)
			g.sc.Assume(implies(c.reach, f))
		}
	}
	// havoc
	post := c.st
	if fc.ModAll {
		g.fail("modifies * not supported yet (%s)", key)
	}
	needBase := len(fc.Modifies) > 0
	for i := 0; i < sig.Results().Len(); i++ {
		switch g.sortOf(sig.Results().At(i).Type()) {
		case SRef, SSlice, SIface:
			needBase = true
		}
	}
	if needBase {
		nb := g.sc.Fresh("base", SInt)
		g.sc.Assume(fmt.Sprintf("(>= %s (+ %s %d))", nb.S, g.curBase, g.allocN+1))
		g.curBase = nb.S
	}
	// locations reached through a result (fields of a returned object) are havoced once the result exists
	var viaResult []Expr
	for _, loc := range fc.Modifies {
		if mentionsResult(loc, fc, sig) {
			viaResult = append(viaResult, loc)
			continue
		}
		fr.havocLoc(env, loc, post)
	}
	// results
	var res []Term
	rnames := fc.ResultNames
	for i := 0; i < sig.Results().Len(); i++ {
		t := sig.Results().At(i).Type()
		v := g.sc.Fresh("r_"+lastName(key), g.sortOf(t))
		g.sc.Assume(g.typeInv(v.S, t))
		g.assumeOld(v, g.curBase)
		res = append(res, v)
		n := sig.Results().At(i).Name()
		if i < len(rnames) && rnames[i] != "" {
			n = rnames[i]
		}
		if n == "" || n == "_" {
			n = fmt.Sprintf("r%d", i)
		}
		env.vars[n] = Binding{v, goTy(t)}
		if i == 0 {
			env.vars["result"] = Binding{v, goTy(t)}
		}
	}
	env.st = post
	for _, loc := range viaResult {
		fr.havocLoc(env, loc, post)
	}
	for _, en := range fc.Ensures {
		g.sc.Assume(implies(c.reach, env.trBool(en.E)))
	}
	// crash points: the function under verification must keep its crash invariant at every durable step
	fr.crashPoints(fc, env, old, c, site)
	// vacuity guard after assumed contracts: the continuation must be reachable
	if (fc.Extern || fc.AssumeOnly) && g.dry == 0 {
		g.obls = append(g.obls, &Obligation{Name: fr.oname("cover@"+site, "after"), Kind: "cover", Func: g.fnName, Prefix: g.sc.Len(), Reach: c.reach, Goal: "true", Cover: true})
	}
	fr.anchorBoth("after", site, ins, c, res)
	return res
}

// mentionsResult reports whether a modifies location is reached through a result of the function.
func mentionsResult(loc Expr, fc *FuncContract, sig *types.Signature) bool {
	names := map[string]bool{"result": true}
	for i := 0; i < sig.Results().Len(); i++ {
		n := sig.Results().At(i).Name()
		if i < len(fc.ResultNames) && fc.ResultNames[i] != "" {
			n = fc.ResultNames[i]
		}
		if n != "" && n != "_" {
			names[n] = true
		}
	}
	for i, p := range fc.ParamNames {
		_ = i
		delete(names, p) // a parameter of the same name wins
	}
	for _, id := range exprIdents(loc) {
		if names[id] {
			return true
		}
	}
	return false
}

// srcSite names a call site by source order: "Name@k" is the k-th call (by position in the source text) of a callee
// called Name in the function under verification. Unlike "Name#k", which follows the order in which the engine
// visits the blocks, it does not change when control flow elsewhere in the function is restructured.
func (fr *Frame) srcSite(ins ssa.Instruction, name string) string {
	if ins == nil || fr.contract == nil {
		return ""
	}
	if fr.srcOrd == nil {
		fr.srcOrd = map[ssa.Instruction]string{}
		type cs struct {
			ins ssa.Instruction
			pos token.Pos
		}
		by := map[string][]cs{}
		for _, b := range fr.fn.Blocks {
			for _, in := range b.Instrs {
				ci, ok := in.(ssa.CallInstruction)
				if !ok {
					continue
				}
				n := ""
				if ci.Common().IsInvoke() {
					n = ci.Common().Method.Name()
				} else if f := ci.Common().StaticCallee(); f != nil {
					n = lastName(funcKey(f))
				} else if bi, ok := ci.Common().Value.(*ssa.Builtin); ok {
					n = bi.Name()
				} else {
					continue
				}
				by[n] = append(by[n], cs{in, in.Pos()})
			}
		}
		for n, l := range by {
			sort.SliceStable(l, func(i, j int) bool { return l[i].pos < l[j].pos })
			for i, x := range l {
				fr.srcOrd[x.ins] = fmt.Sprintf("%s@%d", n, i)
			}
		}
	}
	s := fr.srcOrd[ins]
	if s == "" || !strings.HasPrefix(s, name+"@") {
		return ""
	}
	return s
}

// anchorBoth fires the clauses anchored on the engine-order name of a call site and those anchored on its
// source-order name.
func (fr *Frame) anchorBoth(when, site string, ins ssa.Instruction, c *blockCtx, results []Term) {
	// Go types of the results ($rK in clauses anchored after the call), where the call instruction is known
	fr.anchorResTypes = nil
	if ci, ok := ins.(ssa.CallInstruction); ok && results != nil {
		if sig := ci.Common().Signature(); sig != nil {
			for i := 0; i < sig.Results().Len(); i++ {
				fr.anchorResTypes = append(fr.anchorResTypes, sig.Results().At(i).Type())
			}
		}
	}
	defer func() { fr.anchorResTypes = nil }()
	fr.anchor(when+" call "+site, c, results)
	if i := strings.LastIndex(site, "#"); i > 0 {
		if s2 := fr.srcSite(ins, site[:i]); s2 != "" {
			if os.Getenv("GOWP_ANCHOR_MAP") != "" && when == "before" && fr.g.dry == 0 {
				fmt.Fprintf(os.Stderr, "ANCHOR %s %s = %s\n", funcKey(fr.fn), site, s2)
			}
			fr.anchor(when+" call "+s2, c, results)
		}
	}
}

// anchor fires "assert/assume ... at <anchor>" clauses of the function under verification.
func (fr *Frame) anchor(name string, c *blockCtx, results []Term) {
	g := fr.g
	if fr.contract == nil {
		return
	}
	for i, a := range fr.contract.Asserts {
		if a.Anchor != name {
			continue
		}
		if fr.firedAnchors == nil {
			fr.firedAnchors = map[int]bool{}
		}
		if g.dry == 0 {
			fr.firedAnchors[i] = true
		} else if len(a.Havoc) == 0 && a.SetName == "" {
			// inside the dry run that determines a loop's write set call ordinals differ from the real pass,
			// and an assertion or assumption has no effect on the write set
			continue
		}
		env := fr.baseEnv(c.st)
		at := fr.curBlock
		anchorArgs := fr.anchorArgs
		resTypes := fr.anchorResTypes
		env.resolve = func(n string, st2 *State) (Term, Ty, bool) {
			if strings.HasPrefix(n, "$r") {
				if k, err := strconv.Atoi(n[2:]); err == nil && k < len(results) {
					if k < len(resTypes) && len(resTypes) == len(results) {
						return results[k], goTy(resTypes[k]), true
					}
					return results[k], Ty{Spec: results[k].Sort}, true
				}
			}
			if strings.HasPrefix(n, "$a") {
				// $aK: the K-th argument of the call the clause is anchored before
				if k, err := strconv.Atoi(n[2:]); err == nil && k < len(anchorArgs) {
					return anchorArgs[k], Ty{Spec: anchorArgs[k].Sort}, true
				}
			}
			if n == "$i" {
				// innermost enclosing range loop: number of completed iterations
				var best *loopInfo
				for _, li := range fr.loopList {
					if li.body[at] && (best == nil || len(li.body) < len(best.body)) {
						best = li
					}
				}
				if best != nil {
					for _, phi := range phisOf(best.header) {
						if phi.Comment == "rangeindex" {
							if t, ok := fr.vals[phi]; ok {
								return Term{"(+ " + t.S + " 1)", SInt}, mathInt, true
							}
						}
					}
				}
			}
			if strings.HasPrefix(n, "$h_") {
				// value of a source variable at the head of the innermost enclosing loop that carries it
				// (its value when the current iteration started)
				var best *loopInfo
				var bestPhi *ssa.Phi
				for _, li := range fr.loopList {
					if !li.body[at] || (best != nil && len(li.body) >= len(best.body)) {
						continue
					}
					for _, phi := range phisOf(li.header) {
						if phi.Comment == n[3:] {
							best, bestPhi = li, phi
						}
					}
				}
				if bestPhi != nil {
					if t, ok := fr.vals[bestPhi]; ok {
						return t, goTy(bestPhi.Type()), true
					}
					if g.dry > 0 {
						return g.sc.Fresh("dryhead", g.sortOf(bestPhi.Type())), goTy(bestPhi.Type()), true
					}
				}
				return Term{}, Ty{}, false
			}
			return fr.resolveLocalAt(n, at, st2)
		}
		if len(a.Havoc) > 0 {
			for _, loc := range a.Havoc {
				henv := *env
				henv.old = c.st.clone()
				fr.havocLoc(&henv, loc, c.st)
			}
			g.usedAssumed["rely(havoc)@"+funcKey(fr.fn)+": "+a.C.Src] = true
			continue
		}
		if a.SetName != "" {
			t, _ := env.tr(a.C.E)
			if sel, ok := a.SetTarget.(*ESel); ok {
				base, _ := env.tr(sel.X)
				key, es, _ := g.ghostField(sel.Sel)
				g.writeCell(c.st, key, es, env.ghostBase(base, sel.X, sel.Sel), t.S)
				continue
			}
			g.setGhost(c.st, a.SetName, "Nil", t.S)
			continue
		}
		f := env.trBool(a.C.E)
		label := a.C.Label
		if label == "" {
			label = fmt.Sprint(i)
		}
		if !a.Assume {
			g.oblige("assert", fr.oname("assert", label), c.reach, f, a.C.Src, false)
		} else {
			g.usedAssumed["assume@"+funcKey(fr.fn)+"/"+label] = true
		}
		g.sc.Assume(implies(c.reach, f))
	}
}

// resolveLocalAt resolves a local name within block at (including definitions in the block itself).
func (fr *Frame) resolveLocalAt(name string, at *ssa.BasicBlock, st *State) (Term, Ty, bool) {
	// definitions inside the current block that are already evaluated
	g := fr.g
	var bestV ssa.Value
	isAddr := false
	for _, ins := range at.Instrs {
		switch ins := ins.(type) {
		case *ssa.Phi:
			if ins.Comment == name {
				if _, ok := fr.vals[ins]; ok {
					bestV, isAddr = ins, false
				}
			}
		case *ssa.DebugRef:
			if id, ok := ins.Expr.(*ast.Ident); ok && id.Name == name {
				if al := fr.allocOfVar(ins); al != nil && !ins.IsAddr {
					if _, ok := fr.vals[al]; ok {
						bestV, isAddr = al, true
					}
				} else if fv := fr.freeVarOf(ins); fv != nil && !ins.IsAddr {
					if _, ok := fr.vals[fv]; ok {
						bestV, isAddr = fv, true
					}
				} else if _, ok := fr.vals[ins.X]; ok {
					bestV, isAddr = ins.X, ins.IsAddr
				} else if _, isC := ins.X.(*ssa.Const); isC {
					bestV, isAddr = ins.X, ins.IsAddr
				}
			}
		case *ssa.Alloc:
			if ins.Comment == name {
				if _, ok := fr.vals[ins]; ok {
					bestV, isAddr = ins, true
				}
			}
		}
	}
	if bestV != nil {
		t := fr.val(bestV)
		if isAddr {
			p := bestV.Type().Underlying().(*types.Pointer)
			return g.load(st, t.S, p.Elem()), goTy(p.Elem()), true
		}
		return t, goTy(bestV.Type()), true
	}
	return fr.resolveLocal(name, at, st)
}

// havocLoc havocs one location of a modifies clause.
func (fr *Frame) havocLoc(env *Env, loc Expr, st *State) {
	g := fr.g
	pre := env.inState(env.old)
	switch l := loc.(type) {
	case *ECall:
		if id, ok := l.Fun.(*EIdent); ok {
			switch id.Name {
			case "$elems":
				s, ty := pre.tr(l.Args[0])
				if mt, isMap := ty.G.Underlying().(*types.Map); isMap {
					// m[*]: the whole content of a Go map
					mv := g.mapHeaps(mt)
					g.writeCell(st, mv.domKey, mv.domSort, s.S, g.sc.Fresh("dom", mv.domSort).S)
					g.writeCell(st, mv.valKey, mv.valSort, s.S, g.sc.Fresh("val", mv.valSort).S)
					cd := g.sc.Fresh("card", SInt)
					g.sc.Assume("(>= " + cd.S + " 0)")
					g.writeCell(st, mv.cardKey, SInt, s.S, cd.S)
					return
				}
				sl, ok := ty.G.Underlying().(*types.Slice)
				if !ok {
					g.fail("modifies x[*] on non-slice")
				}
				g.havocElems(st, "(sarr "+s.S+")", sl.Elem())
				return
			case "$fields":
				p, ty := pre.tr(l.Args[0])
				pt, ok := ty.G.Underlying().(*types.Pointer)
				if !ok {
					g.fail("modifies x.* on non-pointer")
				}
				g.havocCell(st, p.S, pt.Elem())
				return
			case "$allof":
				name := l.Args[0].(*EIdent).Name
				if strings.HasPrefix(name, "elems ") {
					// all(elems T): every slice/array element cell holding a T, leaf by leaf for struct element
					// types (in-place appends into lists whose backing arrays cannot be named)
					ty := g.W.resolveType(env.pkg, strings.TrimSpace(name[len("elems "):]), g)
					keys, paths, sorts := g.leafGroups(ty.G)
					for _, key := range keys {
						es := sorts[key]
						old := g.heap(st, key, es)
						nh := g.sc.Fresh(key, old.Sort)
						g.heapWF(nh.S, es, g.curBase, false)
						var preds []string
						for _, path := range paths[key] {
							sh, _ := addrShape(path("(Elem a k)"))
							preds = append(preds, shapePred("r", sh))
							g.logWholeWrite(key, es, "shape:"+sh)
						}
						g.sc.Assume(fmt.Sprintf("(forall ((r Ref)) (! (or %s (= (select %s r) (select %s r))) :pattern ((select %s r))))", strings.Join(preds, " "), nh.S, old.S, nh.S))
						st.heaps[key] = nh
						if g.frec != nil {
							for _, p := range preds {
								*g.frec = append(*g.frec, frameW{key, p})
							}
						}
						if key == "H_Int_uint8" {
							g.bytesFrame(nh.S, old.S, "false")
						}
					}
					return
				}
				if !strings.HasPrefix(name, "$") {
					// all(Type.field): that field of every object (cells of other shapes in the same heap component
					// are framed)
					i := strings.LastIndex(name, ".")
					if i <= 0 {
						g.fail("modifies all(%s): want all($ghost) or all(Type.field)", name)
					}
					ty := g.W.resolveType(env.pkg, name[:i], g)
					stt, ok := isStruct(ty.G)
					if !ok {
						g.fail("modifies all(%s): %s is not a struct type", name, name[:i])
					}
					idx := -1
					for k := 0; k < stt.NumFields(); k++ {
						if stt.Field(k).Name() == name[i+1:] {
							idx = k
						}
					}
					if idx < 0 {
						g.fail("modifies all(%s): no such field", name)
					}
					ft := stt.Field(idx).Type()
					if _, isS := isStruct(ft); isS {
						g.fail("modifies all(%s): struct-typed field", name)
					}
					key, es := g.heapKeyT(ft), g.sortOf(ft)
					old := g.heap(st, key, es)
					nh := g.sc.Fresh(key, old.Sort)
					g.sc.Assume(fmt.Sprintf("(forall ((r Ref)) (! (or (and ((_ is Fld) r) (= (fid r) %d)) (= (select %s r) (select %s r))) :pattern ((select %s r))))", idx, nh.S, old.S, nh.S))
					st.heaps[key] = nh
					g.logWholeWrite(key, es, "")
					if g.frec != nil {
						*g.frec = append(*g.frec, frameW{key, fmt.Sprintf("(and ((_ is Fld) r) (= (fid r) %d))", idx)})
					}
					return
				}
				key, es, _ := g.ghostField(name)
				if g.frec != nil {
					*g.frec = append(*g.frec, frameW{key, "true"})
				}
				old := g.heap(st, key, es)
				nh := g.sc.Fresh(key, old.Sort)
				st.heaps[key] = nh
				g.logWholeWrite(key, es, "")
				return
			case "$mapof":
				m, ty := pre.tr(l.Args[0])
				mt := ty.G.Underlying().(*types.Map)
				mv := g.mapHeaps(mt)
				g.writeCell(st, mv.domKey, mv.domSort, m.S, g.sc.Fresh("dom", mv.domSort).S)
				g.writeCell(st, mv.valKey, mv.valSort, m.S, g.sc.Fresh("val", mv.valSort).S)
				cd := g.sc.Fresh("card", SInt)
				g.sc.Assume("(>= " + cd.S + " 0)")
				g.writeCell(st, mv.cardKey, SInt, m.S, cd.S)
				return
			}
		}
	case *ESel:
		if strings.HasPrefix(l.Sel, "$") {
			base, _ := pre.tr(l.X)
			key, es, _ := g.ghostField(l.Sel)
			a := pre.ghostBase(base, l.X, l.Sel)
			g.writeCell(st, key, es, a, g.sc.Fresh(key, es).S)
			return
		}
	case *EIdent:
		if strings.HasPrefix(l.Name, "$") {
			key, es, gf := g.ghostField(l.Name)
			if !gf.Var {
				g.fail("modifies %s: ghost field without receiver", l.Name)
			}
			g.writeCell(st, key, es, "Nil", g.sc.Fresh(key, es).S)
			return
		}
	}
	a, t := pre.addrOf(loc)
	g.havocCell(st, a, t)
}

// havocCell replaces the content of the cell of type t at address a by unknown values.
func (g *Gen) havocCell(st *State, a string, t types.Type) {
	if u, ok := isStruct(t); ok {
		for i := 0; i < u.NumFields(); i++ {
			g.havocCell(st, fmt.Sprintf("(Fld %s %d)", a, i), u.Field(i).Type())
		}
		return
	}
	if arr, ok := t.Underlying().(*types.Array); ok {
		if _, leaf := isLeafArray(t); !leaf {
			g.havocElems(st, a, arr.Elem())
			return
		}
	}
	s := g.sortOf(t)
	v := g.sc.Fresh("hv", s)
	g.sc.Assume(g.typeInv(v.S, t))
	g.assumeOld(v, g.curBase)
	g.writeCell(st, g.heapKeyT(t), s, a, v.S)
}

// havocElems havocs all elements of backing array arr.
func (g *Gen) havocElems(st *State, arr string, et types.Type) {
	keys, _, sorts := g.leafGroups(et)
	for _, key := range keys {
		s := sorts[key]
		old := g.heap(st, key, s)
		nh := g.sc.Fresh(key, old.Sort)
		g.heapWF(nh.S, s, g.curBase, false)
		g.sc.Assume(fmt.Sprintf("(forall ((r Ref)) (! (or (= (elemArr r) %s) (= (select %s r) (select %s r))) :pattern ((select %s r))))", arr, nh.S, old.S, nh.S))
		st.heaps[key] = nh
		if g.frec != nil {
			*g.frec = append(*g.frec, frameW{key, "(= (elemArr r) " + arr + ")"})
		}
		if key == "H_Int_uint8" {
			g.bytesFrame(nh.S, old.S, "(not (= (sarr s) "+arr+"))")
		}
		g.logWholeWrite(key, s, "elems:"+arr)
	}
}

// ---------- builtins ----------

func (fr *Frame) execBuiltin(b *ssa.Builtin, cc *ssa.CallCommon, args []Term, c *blockCtx, ins ssa.Instruction) []Term {
	g := fr.g
	switch b.Name() {
	case "len":
		x := args[0]
		switch x.Sort {
		case SSlice:
			return []Term{{"(slen " + x.S + ")", SInt}}
		case SStr:
			return []Term{{"(strlen " + x.S + ")", SInt}}
		case SRef:
			switch t := cc.Args[0].Type().Underlying().(type) {
			case *types.Map:
				mv := g.mapHeaps(t)
				card := g.heap(c.st, mv.cardKey, SInt)
				v := g.sc.Define("maplen", Term{ite(eq(x.S, "Nil"), "0", sel(card.S, x.S)), SInt})
				g.sc.Assume("(>= " + v.S + " 0)")
				return []Term{v}
			case *types.Chan:
				v := g.getGhost(c.st, "$chlen", x.S)
				return []Term{v}
			case *types.Pointer:
				if a, ok := t.Elem().Underlying().(*types.Array); ok {
					return []Term{{fmt.Sprint(a.Len()), SInt}}
				}
			}
		}
		if a, ok := cc.Args[0].Type().Underlying().(*types.Array); ok {
			return []Term{{fmt.Sprint(a.Len()), SInt}}
		}
		g.fail("len of %s", cc.Args[0].Type())
	case "cap":
		x := args[0]
		if x.Sort == SSlice {
			return []Term{{"(scap " + x.S + ")", SInt}}
		}
		if x.Sort == SRef {
			if _, ok := cc.Args[0].Type().Underlying().(*types.Chan); ok {
				return []Term{g.getGhost(c.st, "$chcap", x.S)}
			}
		}
		g.fail("cap of %s", cc.Args[0].Type())
	case "append":
		return []Term{fr.execAppend(cc, args, c)}
	case "copy":
		return []Term{fr.execCopy(cc, args, c)}
	case "delete":
		mt := cc.Args[0].Type().Underlying().(*types.Map)
		g.mapDelete(c.st, mt, args[0].S, args[1].S)
		return nil
	case "close":
		fr.safety("close", c.reach, and(not(eq(args[0].S, "Nil")), not(g.getGhost(c.st, "$chclosed", args[0].S).S)), ins)
		g.setGhost(c.st, "$chclosed", args[0].S, "true")
		return nil
	case "print", "println":
		return nil
	case "min", "max":
		op := "<="
		if b.Name() == "max" {
			op = ">="
		}
		acc := args[0].S
		for _, a := range args[1:] {
			acc = ite("("+op+" "+acc+" "+a.S+")", acc, a.S)
		}
		return []Term{{acc, args[0].Sort}}
	case "ssa:wrapnilchk":
		fr.safety("nil", c.reach, not(eq(args[0].S, "Nil")), ins)
		return []Term{args[0]}
	case "clear":
		g.fail("clear builtin")
	}
	g.fail("builtin %s", b.Name())
	return nil
}

func (fr *Frame) execAppend(cc *ssa.CallCommon, args []Term, c *blockCtx) Term {
	g := fr.g
	s := g.constFor("apps", args[0])
	add := g.constFor("appadd", args[1])
	st := cc.Args[0].Type().Underlying().(*types.Slice)
	et := st.Elem()
	if add.Sort == SStr {
		g.fail("append(bytes, string...)")
	}
	// number of appended elements
	n := "(slen " + add.S + ")"
	newLen := g.sc.Define("applen", Term{"(+ (slen " + s.S + ") " + n + ")", SInt})
	fits := g.sc.Define("appfits", Term{"(<= " + newLen.S + " (scap " + s.S + "))", SBool})
	// fresh backing array when it does not fit
	obj := g.newObj()
	ncap := g.sc.Fresh("appcap", SInt)
	g.sc.Assume("(>= " + ncap.S + " " + newLen.S + ")")
	res := g.constFor("app", Term{ite(fits.S,
		fmt.Sprintf("(mkSlice (sarr %s) (soff %s) %s (scap %s))", s.S, s.S, newLen.S, s.S),
		fmt.Sprintf("(mkSlice %s 0 %s %s)", obj, newLen.S, ncap.S)), SSlice})
	// special case: appending exactly one element (the overwhelmingly common case: append(s, x))
	single := false
	var singleAddr string
	if sl, ok := cc.Args[1].(*ssa.Slice); ok {
		if al, ok := sl.X.(*ssa.Alloc); ok {
			if at, ok := al.Type().Underlying().(*types.Pointer).Elem().Underlying().(*types.Array); ok && at.Len() == 1 {
				single = true
				singleAddr = fmt.Sprintf("(Elem %s 0)", fr.val(al).S)
			}
		}
	}
	if single {
		// new array: copy of old elements (quantified), then the element
		g.copyElemsQuant(c.st, res.S, s.S, et, not(fits.S))
		v := g.load(c.st, singleAddr, et)
		dst := fmt.Sprintf("(Elem (sarr %s) (+ (soff %s) (slen %s)))", res.S, res.S, s.S)
		g.store(c.st, dst, et, v.S)
		return res
	}
	// general case: contents described by quantified assumptions on a havoced heap
	var bytes0 string
	if b, ok := et.Underlying().(*types.Basic); ok && b.Kind() == types.Uint8 {
		bytes0 = g.heap(c.st, g.heapKeyT(et), SInt).S
	}
	g.copyElemsQuant(c.st, res.S, s.S, et, not(fits.S))
	g.appendElemsQuant(c.st, res.S, s.S, add.S, et)
	if bcat := g.W.abstracts["bcat"]; bytes0 != "" && bcat != nil && len(bcat.Params) == 2 {
		// abstract content: bytes(append(s, add...)) is the content of s followed by the content of add
		g.declSort("Bytes")
		g.declBytesOf()
		g.declareAbstract(bcat)
		h1 := g.heap(c.st, g.heapKeyT(et), SInt).S
		g.sc.Assume(eq(app("bytesOf", h1, res.S), app("bcat", app("bytesOf", bytes0, s.S), app("bytesOf", bytes0, add.S))))
	}
	return res
}

// leafGroups groups the leaf cells of element type et by heap component.
func (g *Gen) leafGroups(et types.Type) (keys []string, paths map[string][]func(string) string, sorts map[string]string) {
	paths = map[string][]func(string) string{}
	sorts = map[string]string{}
	g.forLeaves(et, func(path func(string) string, lt types.Type) {
		k := g.heapKeyT(lt)
		if _, ok := paths[k]; !ok {
			keys = append(keys, k)
		}
		sorts[k] = g.sortOf(lt)
		paths[k] = append(paths[k], path)
	})
	return
}

// copyElemsQuant: under cond, elements [0,len(src)) of dst's array equal src's elements (dst array is fresh).
func (g *Gen) copyElemsQuant(st *State, dst, src string, et types.Type, cond string) {
	keys, paths, sortOfKey := g.leafGroups(et)
	for _, key := range keys {
		s := sortOfKey[key]
		old := g.heap(st, key, s)
		nh := g.sc.Fresh(key, old.Sort)
		g.heapWF(nh.S, s, g.allocTop(), false)
		// frame: everything outside the fresh array unchanged; inside: copied
		g.sc.Assume(fmt.Sprintf("(forall ((r Ref)) (! (or (and %s (= (elemArr r) (sarr %s))) (= (select %s r) (select %s r))) :pattern ((select %s r))))",
			cond, dst, nh.S, old.S, nh.S))
		for _, path := range paths[key] {
			di := path(fmt.Sprintf("(Elem (sarr %s) k)", dst))
			si := path(fmt.Sprintf("(Elem (sarr %s) (+ (soff %s) k))", src, src))
			g.sc.Assume(implies(cond, fmt.Sprintf("(forall ((k Int)) (! (=> (and (<= 0 k) (< k (slen %s))) (= (select %s %s) (select %s %s))) :pattern ((select %s %s))))",
				src, nh.S, di, old.S, si, nh.S, di)))
			sh, _ := addrShape(path("(Elem a k)"))
			g.logWholeWrite(key, s, "shape:"+sh)
		}
		st.heaps[key] = nh
		if key == "H_Int_uint8" {
			g.bytesFrame(nh.S, old.S, "(not (= (sarr s) (sarr "+dst+")))")
		}
	}
}

// appendElemsQuant writes the elements of add after the first len(s) elements of res.
func (g *Gen) appendElemsQuant(st *State, res, s, add string, et types.Type) {
	keys, paths, sortOfKey := g.leafGroups(et)
	for _, key := range keys {
		so := sortOfKey[key]
		old := g.heap(st, key, so)
		nh := g.sc.Fresh(key, old.Sort)
		g.heapWF(nh.S, so, g.allocTop(), false)
		inRange := fmt.Sprintf("(and (= (elemArr r) (sarr %s)) (<= (+ (soff %s) (slen %s)) (elemIdx r)) (< (elemIdx r) (+ (soff %s) (slen %s))))", res, res, s, res, res)
		g.sc.Assume(fmt.Sprintf("(forall ((r Ref)) (! (or %s (= (select %s r) (select %s r))) :pattern ((select %s r))))", inRange, nh.S, old.S, nh.S))
		for _, path := range paths[key] {
			di := path(fmt.Sprintf("(Elem (sarr %s) (+ (soff %s) (slen %s) k))", res, res, s))
			si := path(fmt.Sprintf("(Elem (sarr %s) (+ (soff %s) k))", add, add))
			g.sc.Assume(fmt.Sprintf("(forall ((k Int)) (! (=> (and (<= 0 k) (< k (slen %s))) (= (select %s %s) (select %s %s))) :pattern ((select %s %s))))",
				add, nh.S, di, old.S, si, nh.S, di))
			sh, _ := addrShape(path("(Elem a k)"))
			g.logWholeWrite(key, so, "shape:"+sh)
		}
		st.heaps[key] = nh
		if key == "H_Int_uint8" {
			g.bytesFrame(nh.S, old.S, "(not (= (sarr s) (sarr "+res+")))")
		}
	}
}

// forLeaves enumerates the leaf cells of a value of type t; path maps an element address to the leaf address.
func (g *Gen) forLeaves(t types.Type, f func(path func(string) string, lt types.Type)) {
	var walk func(t types.Type, path func(string) string)
	walk = func(t types.Type, path func(string) string) {
		if u, ok := isStruct(t); ok {
			for i := 0; i < u.NumFields(); i++ {
				i := i
				walk(u.Field(i).Type(), func(a string) string { return fmt.Sprintf("(Fld %s %d)", path(a), i) })
			}
			return
		}
		f(path, t)
	}
	walk(t, func(a string) string { return a })
}

func (fr *Frame) execCopy(cc *ssa.CallCommon, args []Term, c *blockCtx) Term {
	g := fr.g
	dst, src := g.constFor("cpdst", args[0]), g.constFor("cpsrc", args[1])
	if src.Sort == SStr {
		g.fail("copy from string")
	}
	et := cc.Args[0].Type().Underlying().(*types.Slice).Elem()
	n := g.sc.Define("copyn", Term{ite("(<= (slen "+dst.S+") (slen "+src.S+"))", "(slen "+dst.S+")", "(slen "+src.S+")"), SInt})
	keys, paths, sortOfKey := g.leafGroups(et)
	for _, key := range keys {
		so := sortOfKey[key]
		old := g.heap(c.st, key, so)
		nh := g.sc.Fresh(key, old.Sort)
		g.heapWF(nh.S, so, g.curBase, false)
		inRange := fmt.Sprintf("(and (= (elemArr r) (sarr %s)) (<= (soff %s) (elemIdx r)) (< (elemIdx r) (+ (soff %s) %s)))", dst.S, dst.S, dst.S, n.S)
		g.sc.Assume(fmt.Sprintf("(forall ((r Ref)) (! (or %s (= (select %s r) (select %s r))) :pattern ((select %s r))))", inRange, nh.S, old.S, nh.S))
		for _, path := range paths[key] {
			di := path(fmt.Sprintf("(Elem (sarr %s) (+ (soff %s) k))", dst.S, dst.S))
			si := path(fmt.Sprintf("(Elem (sarr %s) (+ (soff %s) k))", src.S, src.S))
			g.sc.Assume(fmt.Sprintf("(forall ((k Int)) (! (=> (and (<= 0 k) (< k %s)) (= (select %s %s) (select %s %s))) :pattern ((select %s %s))))",
				n.S, nh.S, di, old.S, si, nh.S, di))
		}
		c.st.heaps[key] = nh
		if key == "H_Int_uint8" {
			g.bytesFrame(nh.S, old.S, "(not (= (sarr s) (sarr "+dst.S+")))")
		}
		g.logWholeWrite(key, so, "elems:(sarr "+dst.S+")")
	}
	fr.syncArrView(cc.Args[0], c.st)
	return n
}

// engineBuiltin models a few library functions directly.
func (fr *Frame) engineBuiltin(key string, fn *ssa.Function, args []Term, sig *types.Signature, c *blockCtx, ins ssa.Instruction) ([]Term, bool) {
	g := fr.g
	switch key {
	case "fmt.Errorf", "errors.New":
		obj := g.newObj()
		tag := g.tagOf(types.NewPointer(types.NewNamed(types.NewTypeName(0, nil, "fmtError", nil), types.NewStruct(nil, nil), nil)))
		t := g.sc.Define("newerr", Term{fmt.Sprintf("(mkIface %d %s)", tag, obj), SIface})
		return []Term{t}, true
	case "fmt.Sprintf", "fmt.Sprint", "fmt.Sprintln":
		t := g.sc.Fresh("sprintf", SStr)
		g.sc.Assume("(>= (strlen " + t.S + ") 0)")
		return []Term{t}, true
	case "(*sync.Once).Do":
		// once.Do(f): f runs iff the ghost flag $done is not set; the flag is set afterwards. Only for a function
		// value known in this frame (a closure made here or a tracked function value).
		if _, ok := g.W.ghosts["$done"]; !ok || len(args) != 2 {
			return nil, false
		}
		cl, ok := g.closures[args[1].S]
		if !ok {
			return nil, false
		}
		done := g.getGhost(c.st, "$done", args[0].S).S
		before := c.st.clone()
		beforeReach := c.reach
		run := &blockCtx{st: c.st.clone(), reach: and(c.reach, not(done))}
		fr.callStatic(cl.fn, cl.bindings, nil, cl.fn.Signature, run, ins)
		merged := g.mergeStates([]string{not(done), "true"}, []*State{run.st, before})
		c.st = merged
		c.reach = and(beforeReach, or(done, run.reach))
		g.setGhost(c.st, "$done", args[0].S, "true")
		return nil, true
	}
	return nil, false
}

// ---------- defer / go ----------

func (fr *Frame) execDefer(ins *ssa.Defer, c *blockCtx) {
	var args []Term
	for _, a := range ins.Call.Args {
		args = append(args, fr.val(a))
	}
	if !ins.Call.IsInvoke() {
		if _, isB := ins.Call.Value.(*ssa.Builtin); !isB {
			if _, isF := ins.Call.Value.(*ssa.Function); !isF {
				fr.deferFn[ins] = fr.val(ins.Call.Value)
			}
		}
	} else {
		fr.deferFn[ins] = fr.val(ins.Call.Value)
	}
	fr.deferArgs[ins] = args
	found := false
	for _, d := range fr.deferSites {
		if d == ins {
			found = true
		}
	}
	if !found {
		fr.deferSites = append(fr.deferSites, ins)
	}
	key := fmt.Sprintf("D_%s%d", fr.prefix, len(fr.deferSites))
	fr.deferKey[ins] = key
	fr.g.writeCell(c.st, key, SBool, "Nil", "true")
}

func (fr *Frame) execRunDefers(c *blockCtx) {
	g := fr.g
	for i := len(fr.deferSites) - 1; i >= 0; i-- {
		d := fr.deferSites[i]
		key := fr.deferKey[d]
		flagT := g.heapOrFalse(c.st, key)
		if flagT == "false" {
			continue
		}
		// conditional execution: run the call on a copy, then merge
		before := c.st.clone()
		beforeReach := c.reach
		run := &blockCtx{st: c.st.clone(), reach: and(c.reach, flagT)}
		// rebuild a call with the captured arguments
		fr.execDeferredCall(d, run)
		merged := g.mergeStates([]string{flagT, "true"}, []*State{run.st, before})
		c.st = merged
		// reach: either the defer was not registered, or the deferred call returned
		c.reach = and(beforeReach, or(not(flagT), run.reach))
	}
}

func (g *Gen) allocTop() string { return fmt.Sprintf("(+ %s %d)", g.curBase, g.allocN) }

func (g *Gen) heapOrFalse(st *State, key string) string {
	if t, ok := st.heaps[key]; ok {
		return sel(t.S, "Nil")
	}
	return "false"
}

func (fr *Frame) execDeferredCall(d *ssa.Defer, c *blockCtx) {
	g := fr.g
	cc := &d.Call
	args := fr.deferArgs[d]
	sig := cc.Signature()
	if cc.IsInvoke() {
		recv := fr.deferFn[d]
		key, fc := g.W.ifaceContract(cc.Value.Type(), cc.Method)
		if fc == nil {
			if g.W.ignored(key) {
				return
			}
			g.fail("no contract for deferred interface method %s", key)
		}
		fr.applyContract(fc, key, sig, append([]Term{recv}, args...), append([]types.Type{cc.Value.Type()}, sigParamTypes(sig)...), c, d)
		return
	}
	switch v := cc.Value.(type) {
	case *ssa.Builtin:
		fr.execBuiltin(v, cc, args, c, d)
	case *ssa.Function:
		if m, obj := fr.monitorOf(v, cc); m != nil && v.Name() == "Unlock" {
			fr.monitorCheck(m, obj, c, "unlock")
		}
		fr.callStatic(v, nil, args, sig, c, d)
	case *ssa.MakeClosure:
		cl := fr.closureOf[v]
		fr.callStatic(cl.fn, cl.bindings, args, sig, c, d)
	default:
		fv := fr.deferFn[d]
		if cl, ok := g.closures[fv.S]; ok {
			fr.callStatic(cl.fn, cl.bindings, args, sig, c, d)
			return
		}
		if key, fc := fr.funcValueContract(cc.Value); fc != nil {
			fr.applyContract(fc, key, sig, args, sigParamTypes(sig), c, d)
			return
		} else if key != "" && g.W.ignored(key) {
			return
		}
		g.fail("deferred dynamic call in %s", funcKey(fr.fn))
	}
}

func (fr *Frame) execGo(ins *ssa.Go, c *blockCtx) {
	g := fr.g
	// the spawned call is recorded in the ghost log $spawned (count only) and not executed
	if _, ok := g.W.ghosts["$spawned"]; ok {
		cur := g.getGhost(c.st, "$spawned", "Nil")
		g.setGhost(c.st, "$spawned", "Nil", "(+ "+cur.S+" 1)")
	}
	g.goStmts = append(g.goStmts, fmt.Sprintf("%s: go %s", funcKey(fr.fn), ins.Call.String()))
}

// crashPoints asserts the crashstates clauses of the function under verification at the crash points of a call:
// after a durable step, and at the (abstract) crash points inside a callee that declares crashstates.
func (fr *Frame) crashPoints(fc *FuncContract, env *Env, old *State, c *blockCtx, site string) {
	g := fr.g
	root := fr
	for root.parent != nil {
		root = root.parent
	}
	if root.contract == nil || len(root.contract.Crash) == 0 || (!fc.Durable && len(fc.Crash) == 0) {
		return
	}
	assertOn := func(st *State, extra string, tag string) {
		renv := root.baseEnv(st)
		renv.old = root.entrySt
		for i, cl := range root.contract.Crash {
			label := cl.Label
			if label == "" {
				label = fmt.Sprint(i)
			}
			g.oblige("crash", fr.oname("crash@"+site+tag, label), and(c.reach, extra), renv.trBool(cl.E), cl.Src, false)
		}
	}
	if len(fc.Crash) > 0 {
		// an arbitrary crash point inside the callee: havoc its frame from the pre-state, assume its crashstates
		tmp := old.clone()
		tenv := *env
		tenv.st = tmp
		tenv.old = old
		for _, loc := range fc.Modifies {
			fr.havocLoc(&tenv, loc, tmp)
		}
		var hyps []string
		for _, cl := range fc.Crash {
			hyps = append(hyps, tenv.trBool(cl.E))
		}
		assertOn(tmp, and(hyps...), ":inside")
	}
	// the state after the call is itself a crash point
	assertOn(c.st, "true", "")
}

// fieldOf: if v is the value of a field of a named struct (loaded through a pointer), return "(*pkg.T).Field".
func fieldOf(v ssa.Value) string {
	u, ok := v.(*ssa.UnOp)
	if !ok {
		return ""
	}
	fa, ok := u.X.(*ssa.FieldAddr)
	if !ok {
		return ""
	}
	pt, ok := fa.X.Type().Underlying().(*types.Pointer)
	if !ok {
		return ""
	}
	n, ok := types.Unalias(pt.Elem()).(*types.Named)
	if !ok || n.Obj().Pkg() == nil {
		return ""
	}
	st, ok := n.Underlying().(*types.Struct)
	if !ok {
		return ""
	}
	return "(*" + n.Obj().Pkg().Path() + "." + n.Obj().Name() + ")." + st.Field(fa.Field).Name()
}

// monitorOf: if the call is Lock/Unlock on a mutex field with a monitor declaration, return it and the owner object.
func (fr *Frame) monitorOf(fn *ssa.Function, cc *ssa.CallCommon) (*FuncContract, Term) {
	g := fr.g
	if len(g.W.monitors) == 0 || len(cc.Args) == 0 || (fn.Name() != "Lock" && fn.Name() != "Unlock") {
		return nil, Term{}
	}
	if fn.Pkg == nil || fn.Pkg.Pkg.Path() != "sync" {
		return nil, Term{}
	}
	fa, ok := cc.Args[0].(*ssa.FieldAddr)
	if !ok {
		return nil, Term{}
	}
	pt, ok := fa.X.Type().Underlying().(*types.Pointer)
	if !ok {
		return nil, Term{}
	}
	n, ok := types.Unalias(pt.Elem()).(*types.Named)
	if !ok || n.Obj().Pkg() == nil {
		return nil, Term{}
	}
	st, ok := n.Underlying().(*types.Struct)
	if !ok {
		return nil, Term{}
	}
	key := "(*" + n.Obj().Pkg().Path() + "." + n.Obj().Name() + ")." + st.Field(fa.Field).Name()
	m := g.W.monitors[key]
	if m == nil {
		return nil, Term{}
	}
	return m, Term{fr.val(fa.X).S, SRef}
}

func (fr *Frame) monitorEnv(m *FuncContract, obj Term, st *State) *Env {
	env := &Env{g: fr.g, pkg: m.Pkg, vars: map[string]Binding{}, st: st, old: st}
	name := "c"
	if len(m.ParamNames) > 0 {
		name = m.ParamNames[0]
	}
	ty := fr.g.W.resolveType(m.Pkg, m.Recv, fr.g)
	env.vars[name] = Binding{obj, ty}
	return env
}

// monitorEnter: after Lock the guarded state is whatever the other lock holders left: havoc it, assume the invariant.
func (fr *Frame) monitorEnter(m *FuncContract, obj Term, c *blockCtx) {
	g := fr.g
	env := fr.monitorEnv(m, obj, c.st)
	env.old = c.st.clone()
	for _, loc := range m.Modifies {
		fr.havocLoc(env, loc, c.st)
	}
	env.st = c.st
	for _, inv := range m.Ensures {
		g.sc.Assume(implies(c.reach, env.trBool(inv.E)))
	}
	g.usedAssumed["monitor: lock invariant of "+m.Recv+"."+m.Name+" assumed at Lock"] = true
}

// monitorCheck: the invariant must hold whenever the lock is released.
func (fr *Frame) monitorCheck(m *FuncContract, obj Term, c *blockCtx, phase string) {
	g := fr.g
	env := fr.monitorEnv(m, obj, c.st)
	fr.callOrd["monitor:"+m.Name]++
	ord := fr.callOrd["monitor:"+m.Name] - 1
	for i, inv := range m.Ensures {
		label := inv.Label
		if label == "" {
			label = fmt.Sprint(i)
		}
		g.oblige("monitor", fr.oname(fmt.Sprintf("monitor/%s@%s#%d", m.Name, phase, ord), label), c.reach, env.trBool(inv.E), inv.Src, false)
	}
}

// seqCall is the proof rule for "for x, y := range seq { body }" (go/ssa turns the body into a synthetic closure and
// calls seq(closure)): the loop is cut like any other loop. The closure's contract carries "yield invariant" clauses
// over the enclosing function's variables and $k (number of completed iterations); the sequence's contract ("seq",
// "yields e" over $y0, $y1, $k) says what is known about the values handed to the body. The invariant is asserted
// before the first iteration, everything the body writes is havoced, the invariant assumed, the body executed once on
// unknown yielded values; where it asks for more (returns true) the invariant must hold again with $k+1. After the
// call the state is either such an invariant state (the sequence ended) or the state in which the body returned false.
func (fr *Frame) seqCall(sfc *FuncContract, skey string, cl *closureVal, c *blockCtx, ins ssa.Instruction) {
	g := fr.g
	yfc := g.W.contracts[funcKey(cl.fn)]
	if (yfc == nil || len(yfc.YieldInvs) == 0) && sfc.CallsArg == 0 {
		g.fail("range over %s in %s: the loop body %s has no yield invariant", skey, funcKey(fr.fn), funcKey(cl.fn))
	}
	if yfc == nil {
		yfc = &FuncContract{}
	}
	g.usedAssumed[skey] = true
	fr.callOrd["seq"]++
	ord := fr.callOrd["seq"] - 1
	// the jump variable of the synthetic closure: 0 = ready for the next iteration
	jumpAddr := ""
	for i, fv := range cl.fn.FreeVars {
		if strings.HasPrefix(fv.Name(), "jump$") && i < len(cl.bindings) {
			jumpAddr = cl.bindings[i].S
		}
	}
	at := fr.curBlock
	mkEnv := func(st *State, k string) *Env {
		env := fr.baseEnv(st)
		env.old = fr.entrySt
		env.resolve = func(n string, st2 *State) (Term, Ty, bool) {
			if n == "$k" {
				return Term{k, SInt}, mathInt, true
			}
			return fr.resolveLocalAt(n, at, st2)
		}
		return env
	}
	// 1. invariant before the first iteration
	env0 := mkEnv(c.st, "0")
	for i, inv := range yfc.YieldInvs {
		label := inv.Label
		if label == "" {
			label = fmt.Sprint(i)
		}
		g.oblige("inv-entry", fr.oname("inv-entry", fmt.Sprintf("range%d/%s", ord, label)), c.reach, env0.trBool(inv.E), inv.Src, false)
	}
	yieldArgs := func() []Term {
		var ys []Term
		ps := cl.fn.Signature.Params()
		for i := 0; i < ps.Len(); i++ {
			v := g.sc.Fresh("yield", g.sortOf(ps.At(i).Type()))
			g.sc.Assume(g.typeInv(v.S, ps.At(i).Type()))
			g.assumeOld(v, g.curBase)
			ys = append(ys, v)
		}
		return ys
	}
	// 2. write set of the body by a dry run
	writes := fr.dryRunCall(cl, yieldArgs, c, ins)
	// 3. havoc, assume the invariant at an unknown iteration
	hst := c.st.clone()
	preTop := g.allocTop()
	nb := g.sc.Fresh("base", SInt)
	g.sc.Assume(fmt.Sprintf("(>= %s (+ %s %d))", nb.S, g.curBase, g.allocN+1))
	g.curBase = nb.S
	g.havocWrites(hst, c.st, writes, nb.S, preTop, nil)
	k := g.sc.Fresh("seqk", SInt)
	g.sc.Assume("(>= " + k.S + " 0)")
	if jumpAddr != "" {
		g.sc.Assume(implies(c.reach, eq(g.load(hst, jumpAddr, types.Typ[types.Int]).S, "0")))
	}
	envH := mkEnv(hst, k.S)
	for _, inv := range yfc.YieldInvs {
		g.sc.Assume(implies(c.reach, envH.trBool(inv.E)))
	}
	// 4. one iteration on unknown yielded values
	ys := yieldArgs()
	yenv := mkEnv(hst, k.S)
	base := yenv.resolve
	yenv.resolve = func(n string, st2 *State) (Term, Ty, bool) {
		if strings.HasPrefix(n, "$y") {
			if i, err := strconv.Atoi(n[2:]); err == nil && i < len(ys) {
				return ys[i], goTy(cl.fn.Signature.Params().At(i).Type()), true
			}
		}
		return base(n, st2)
	}
	for _, y := range sfc.Yields {
		g.sc.Assume(implies(c.reach, yenv.trBool(y.E)))
	}
	body := &blockCtx{st: hst.clone(), reach: c.reach}
	res := fr.inline(cl.fn, cl.bindings, ys, body, ins) // the body itself, whatever contract the literal may have
	more := "true"
	if len(res) > 0 {
		more = res[0].S
	}
	// 5. the invariant again where the body asks for more
	k1 := "(+ " + k.S + " 1)"
	envN := mkEnv(body.st, k1)
	for i, inv := range yfc.YieldInvs {
		label := inv.Label
		if label == "" {
			label = fmt.Sprint(i)
		}
		g.oblige("inv-preserve", fr.oname("inv-preserve", fmt.Sprintf("range%d/%s", ord, label)), and(body.reach, more), envN.trBool(inv.E), inv.Src, false)
	}
	// 6. after the call: the sequence ended in an invariant state, or the body stopped it
	done := g.sc.Fresh("seqdone", SBool)
	g.sc.Assume(implies(and(c.reach, not(done.S)), and(body.reach, not(more))))
	c.st = g.mergeStates([]string{done.S, "true"}, []*State{hst, body.st})
	c.reach = and(c.reach, or(done.S, and(body.reach, not(more))))
	if _, ok := g.W.ghosts["$exhausted"]; ok {
		// ghost flag: the sequence ran to its end (as opposed to being stopped by the loop body)
		g.setGhost(c.st, "$exhausted", "Nil", done.S)
	}
}

// dryRunCall inlines a closure once on a scratch copy of the script to collect what it writes.
func (fr *Frame) dryRunCall(cl *closureVal, mkArgs func() []Term, c *blockCtx, ins ssa.Instruction) []writeRec {
	g := fr.g
	snapLines, snapN, snapObls, snapAlloc, snapBase := len(g.sc.lines), g.sc.n, len(g.obls), g.allocN, g.curBase
	saveVals := map[ssa.Value]Term{}
	for k, v := range fr.vals {
		saveVals[k] = v
	}
	saveOrd := map[string]int{}
	for k, v := range fr.callOrd {
		saveOrd[k] = v
	}
	saveInline := g.inlineN
	g.dry++
	log := &writeLog{snapN: snapN, snapAlloc: snapAlloc, snapBase: snapBase}
	prevLog := g.wlog
	g.wlog = log
	var failure any
	func() {
		defer func() {
			if r := recover(); r != nil {
				failure = r
			}
		}()
		run := &blockCtx{st: c.st.clone(), reach: c.reach}
		fr.inline(cl.fn, cl.bindings, mkArgs(), run, ins)
	}()
	g.dry--
	g.wlog = prevLog
	g.sc.lines = g.sc.lines[:snapLines]
	g.sc.n = snapN
	g.obls = g.obls[:snapObls]
	g.allocN = snapAlloc
	g.curBase = snapBase
	g.inlineN = saveInline
	fr.vals = saveVals
	fr.callOrd = saveOrd
	if failure != nil {
		panic(failure)
	}
	if prevLog != nil {
		for _, w := range log.recs {
			prevLog.add(g, w.key, w.elemSort, w.addr, w.pattern)
		}
	}
	return log.recs
}

package main

import (
	"encoding/json"
	"fmt"
	"os"
	"os/exec"
	"path/filepath"
	"regexp"
	"strings"
	"time"
)

// HarnessSpec maps failed obligations to a replay harness: an in-package Go test, injected with
// `go test -overlay`, that drives the REAL code with a failing input and fails when the violation shows.
type HarnessSpec struct {
	Match string `json:"match"` // regexp on the logical obligation name
	Dir   string `json:"dir"`   // module dir
	Pkg   string `json:"pkg"`   // package dir relative to the module ("." for the root)
	Test  string `json:"test"`  // file under /verif/replay/
	Run   string `json:"run"`   // -run pattern
}

func goTestEnv() []string {
	var env []string
	for _, e := range os.Environ() {
		if strings.HasPrefix(e, "GOTOOLCHAIN=") || strings.HasPrefix(e, "GOSUMDB=") || strings.HasPrefix(e, "GOFLAGS=") || strings.HasPrefix(e, "GOPROXY=") || strings.HasPrefix(e, "PATH=") {
			continue
		}
		env = append(env, e)
	}
	return append(env, "GOFLAGS=-mod=mod", "GOPROXY=off", "PATH="+origPath)
}

// goTestOverlay runs an in-package test file against the real package without writing into the repository.
func goTestOverlay(dir, pkg, testFile, run, workDir string, extraEnv []string, timeoutS int) (string, bool, error) {
	os.MkdirAll(workDir, 0o755)
	abs := filepath.Join(dir, pkg, "zz_verif_injected_test.go")
	ov := map[string]any{"Replace": map[string]string{abs: testFile}}
	b, _ := json.Marshal(ov)
	ovPath := filepath.Join(workDir, fmt.Sprintf("overlay_%d.json", time.Now().UnixNano()))
	if err := os.WriteFile(ovPath, b, 0o644); err != nil {
		return "", false, err
	}
	defer os.Remove(ovPath)
	p := "./" + pkg
	if pkg == "." || pkg == "" {
		p = "."
	}
	cmd := exec.Command(defaultGo, "test", "-overlay", ovPath, "-vet=off", "-count=1", fmt.Sprintf("-timeout=%ds", timeoutS), "-run", run, p)
	cmd.Dir = dir
	cmd.Env = append(goTestEnv(), extraEnv...)
	out, err := cmd.CombinedOutput()
	s := string(out)
	if len(s) > 6000 {
		s = s[:3000] + "\n...\n" + s[len(s)-3000:]
	}
	if err != nil {
		if _, ok := err.(*exec.ExitError); ok {
			return s, false, nil
		}
		return s, false, err
	}
	return s, true, nil
}

func runReplayHarness(spec *PropSpec, lr *logicalResult) (map[string]any, bool) {
	var hs []HarnessSpec
	if err := loadJSON(filepath.Join(verifRoot, "replay", "harness.json"), &hs); err != nil {
		return nil, false
	}
	for _, h := range hs {
		re, err := regexp.Compile(h.Match)
		if err != nil || !re.MatchString(lr.Name) {
			continue
		}
		out, passed, err := goTestOverlay(h.Dir, h.Pkg, filepath.Join(verifRoot, "replay", h.Test), h.Run, filepath.Join(verifRoot, "work", spec.ID), nil, 120)
		if err != nil {
			return map[string]any{"harness": h.Test, "error": err.Error(), "output": out}, false
		}
		if passed {
			// the harness could not make the violation show on the real code
			return map[string]any{"harness": h.Test, "verdict": "not-reproduced", "output": out}, false
		}
		if strings.Contains(out, "[build failed]") || strings.Contains(out, "[setup failed]") {
			return map[string]any{"harness": h.Test, "verdict": "harness-does-not-build", "output": out}, false
		}
		return map[string]any{"harness": h.Test, "run": h.Run, "verdict": "reproduced", "output": out}, true
	}
	return nil, false
}

var reCases = regexp.MustCompile(`BOUNDED-CASES (\d+)`)

// runBounded runs a bounded stand-in: a stated finite enumeration against the real function.
func runBounded(b BoundedSpec, tier string, seed int) map[string]any {
	t0 := time.Now()
	env := []string{"VERIF_TIER=" + tier, fmt.Sprintf("VERIF_SEED=%d", seed)}
	out, passed, err := goTestOverlay(b.Dir, b.Pkg, filepath.Join(verifRoot, "bounded", b.Test), b.Run, filepath.Join(verifRoot, "work", "bounded"), env, 600)
	res := map[string]any{"name": b.Name, "bound": b.Bound, "label": "bounded (not counted as proved)", "ok": passed && err == nil, "wall_s": time.Since(t0).Seconds()}
	if m := reCases.FindStringSubmatch(out); m != nil {
		res["cases"] = m[1]
	}
	if !passed || err != nil {
		res["output"] = out
		if err != nil {
			res["error"] = err.Error()
		}
	}
	return res
}

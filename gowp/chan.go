package main

import (
	"fmt"
	"go/types"

	"golang.org/x/tools/go/ssa"
)

// Channel semantics (DESIGN §2.5): sound for safety, silent on progress. A receive yields an unconstrained
// value; a completed send increments the ghost counter $chsends of the channel; a select fires exactly one of
// its cases (or none, when it has a default).

func (fr *Frame) chanSend(c *blockCtx, ch Term, cond string, val Term) {
	g := fr.g
	if _, ok := g.W.ghosts["$chsends"]; !ok {
		return
	}
	cur := g.getGhost(c.st, "$chsends", ch.S)
	if _, ok := g.W.ghosts["$chlogI"]; ok && val.Sort == SIface {
		// log of the interface values sent on the channel, indexed by send number
		lg := g.getGhost(c.st, "$chlogI", ch.S)
		g.setGhost(c.st, "$chlogI", ch.S, ite(cond, sto(lg.S, cur.S, val.S), lg.S))
	}
	if _, ok := g.W.ghosts["$chlogR"]; ok && val.Sort == SRef {
		// log of the references sent on the channel, indexed by send number
		lg := g.getGhost(c.st, "$chlogR", ch.S)
		g.setGhost(c.st, "$chlogR", ch.S, ite(cond, sto(lg.S, cur.S, val.S), lg.S))
	}
	g.setGhost(c.st, "$chsends", ch.S, ite(cond, "(+ "+cur.S+" 1)", cur.S))
}

// unblockTerms returns the channels named by the root contract's unblocks_on clause (nil if it has none).
func (fr *Frame) unblockTerms(st *State) ([]string, bool) {
	root := fr
	for root.parent != nil {
		root = root.parent
	}
	if root.contract == nil || len(root.contract.UnblocksOn) == 0 {
		return nil, false
	}
	env := root.baseEnv(st)
	var out []string
	for _, e := range root.contract.UnblocksOn {
		t, _ := env.tr(e)
		out = append(out, t.S)
	}
	return out, true
}

func (fr *Frame) execSend(ins *ssa.Send, c *blockCtx) {
	ch := fr.val(ins.Chan)
	fr.safety("nilchan", c.reach, not(eq(ch.S, "Nil")), ins)
	if _, ok := fr.unblockTerms(c.st); ok {
		// a bare send can only be shown not to block through the capacity of a channel made in this function
		g := fr.g
		fr.callOrd["unblock"]++
		goal := "(< " + g.getGhost(c.st, "$chlen", ch.S).S + " " + g.getGhost(c.st, "$chcap", ch.S).S + ")"
		g.oblige("unblock", fr.oname("unblock", fmt.Sprintf("send@%d", fr.callOrd["unblock"])), c.reach, goal, "bare channel send", false)
		cur := g.getGhost(c.st, "$chlen", ch.S)
		g.setGhost(c.st, "$chlen", ch.S, "(+ "+cur.S+" 1)")
	}
	fr.chanSend(c, ch, "true", fr.val(ins.X))
	fr.g.blockingOps = append(fr.g.blockingOps, fmt.Sprintf("%s: bare send on %s", funcKey(fr.fn), ins.Chan.Name()))
}

func (fr *Frame) execRecv(ins *ssa.UnOp, c *blockCtx) {
	g := fr.g
	if _, ok := fr.unblockTerms(c.st); ok {
		fr.callOrd["unblock"]++
		g.oblige("unblock", fr.oname("unblock", fmt.Sprintf("recv@%d", fr.callOrd["unblock"])), c.reach, "false", "bare channel receive", false)
	}
	et := ins.X.Type().Underlying().(*types.Chan).Elem()
	v := g.sc.Fresh("recv", g.sortOf(et))
	g.sc.Assume(g.typeInv(v.S, et))
	g.assumeOld(v, g.curBase)
	ch := fr.val(ins.X)
	if g.W.closeOnlyField(ins.X) {
		// nothing is ever sent on a close-only channel: the receive completed because it is closed
		g.sc.Assume(implies(c.reach, g.getGhost(c.st, "$chclosed", ch.S).S))
	}
	if ins.CommaOk {
		ok := g.sc.Fresh("recvok", SBool)
		if !g.W.closeOnlyField(ins.X) {
			fr.chanRecv(c, ch, ok.S, v, et)
		}
		fr.tuples[ins] = []Term{v, ok}
		return
	}
	if !g.W.closeOnlyField(ins.X) {
		fr.chanRecv(c, ch, "true", v, et)
	}
	fr.vals[ins] = v
}

// chanRecv counts a receive that delivered a value (ghost $chrecvs), when that ghost is declared.
func (fr *Frame) chanRecv(c *blockCtx, ch Term, cond string, val Term, et types.Type) {
	g := fr.g
	if _, ok := g.W.ghosts["$chrecvs"]; !ok {
		return
	}
	if st, ok := et.Underlying().(*types.Struct); ok && st.NumFields() == 0 {
		return // signal channels (chan struct{}) carry no values: their receives are not counted
	}
	cur := g.getGhost(c.st, "$chrecvs", ch.S)
	if _, ok := g.W.ghosts["$chrlogI"]; ok && val.Sort == SIface {
		// log of the interface values received from the channel, indexed by receive number
		lg := g.getGhost(c.st, "$chrlogI", ch.S)
		g.setGhost(c.st, "$chrlogI", ch.S, ite(cond, sto(lg.S, cur.S, val.S), lg.S))
	}
	if _, ok := g.W.ghosts["$chrlogR"]; ok && val.Sort == SRef {
		// log of the references received from the channel, indexed by receive number
		lg := g.getGhost(c.st, "$chrlogR", ch.S)
		g.setGhost(c.st, "$chrlogR", ch.S, ite(cond, sto(lg.S, cur.S, val.S), lg.S))
	}
	g.setGhost(c.st, "$chrecvs", ch.S, ite(cond, "(+ "+cur.S+" 1)", cur.S))
}

func (fr *Frame) execSelect(ins *ssa.Select, c *blockCtx) {
	g := fr.g
	idx := g.sc.Fresh("selidx", SInt)
	lo := "0"
	if !ins.Blocking {
		lo = "(- 1)"
	}
	g.sc.Assume(fmt.Sprintf("(and (<= %s %s) (< %s %d))", lo, idx.S, idx.S, len(ins.States)))
	if quits, ok := fr.unblockTerms(c.st); ok && ins.Blocking {
		// a blocking select must offer a receive on one of the unblocking channels
		var alts []string
		for _, st := range ins.States {
			if st.Dir == types.RecvOnly {
				ch := fr.val(st.Chan)
				for _, q := range quits {
					alts = append(alts, eq(ch.S, q))
				}
			}
		}
		fr.callOrd["unblock"]++
		g.oblige("unblock", fr.oname("unblock", fmt.Sprintf("select@%d", fr.callOrd["unblock"])), c.reach, or(alts...), "blocking select without an unblocking receive", false)
		// further unblocks_on lines: the select must also offer a receive on one channel of each of them
		root := fr
		for root.parent != nil {
			root = root.parent
		}
		env := root.baseEnv(c.st)
		for gi, grp := range root.contract.UnblocksAlso {
			var alts2 []string
			for _, e := range grp {
				q, _ := env.tr(e)
				for _, st := range ins.States {
					if st.Dir == types.RecvOnly {
						alts2 = append(alts2, eq(fr.val(st.Chan).S, q.S))
					}
				}
			}
			g.oblige("unblock", fr.oname("unblock", fmt.Sprintf("also%d/select@%d", gi+1, fr.callOrd["unblock"])), c.reach, or(alts2...), "blocking select without a receive on the additional unblocking channel", false)
		}
	}
	if !ins.Blocking {
		// the default arm is taken only if no other case is ready; a receive from a closed channel is always ready,
		// so on the default path none of the channels the select would receive from is closed
		for _, st := range ins.States {
			if st.Dir == types.RecvOnly {
				ch := fr.val(st.Chan)
				g.sc.Assume(implies(and(c.reach, eq(idx.S, "(- 1)")), not(g.getGhost(c.st, "$chclosed", ch.S).S)))
			}
		}
	}
	res := []Term{idx}
	recvOk := g.sc.Fresh("selok", SBool)
	res = append(res, recvOk)
	for i, st := range ins.States {
		ch := fr.val(st.Chan)
		if st.Dir == types.SendOnly {
			fr.chanSend(c, ch, eq(idx.S, fmt.Sprint(i)), fr.val(st.Send))
			continue
		}
		et := st.Chan.Type().Underlying().(*types.Chan).Elem()
		v := g.sc.Fresh("selrecv", g.sortOf(et))
		g.sc.Assume(g.typeInv(v.S, et))
		g.assumeOld(v, g.curBase)
		if g.W.closeOnlyField(st.Chan) {
			// nothing is ever sent on it: the case fires only once the channel is closed, and delivers no value
			g.sc.Assume(implies(and(c.reach, eq(idx.S, fmt.Sprint(i))), g.getGhost(c.st, "$chclosed", ch.S).S))
		} else {
			// a receive that reports !ok happened on a closed channel
			g.sc.Assume(implies(and(c.reach, eq(idx.S, fmt.Sprint(i)), not(recvOk.S)), g.getGhost(c.st, "$chclosed", ch.S).S))
			fr.chanRecv(c, ch, and(eq(idx.S, fmt.Sprint(i)), recvOk.S), v, et)
		}
		res = append(res, v)
	}
	fr.tuples[ins] = res
}

package main

import (
	"fmt"
	"go/types"

	"golang.org/x/tools/go/ssa"
)

// Channel semantics (DESIGN §2.5): sound for safety, silent on progress. A receive yields an unconstrained
// value; a completed send increments the ghost counter $chsends of the channel; a select fires exactly one of
// its cases (or none, when it has a default).

func (fr *Frame) chanSend(c *blockCtx, ch Term, cond string) {
	g := fr.g
	if _, ok := g.W.ghosts["$chsends"]; !ok {
		return
	}
	cur := g.getGhost(c.st, "$chsends", ch.S)
	g.setGhost(c.st, "$chsends", ch.S, ite(cond, "(+ "+cur.S+" 1)", cur.S))
}

func (fr *Frame) execSend(ins *ssa.Send, c *blockCtx) {
	ch := fr.val(ins.Chan)
	fr.safety("nilchan", c.reach, not(eq(ch.S, "Nil")), ins)
	fr.chanSend(c, ch, "true")
	fr.g.blockingOps = append(fr.g.blockingOps, fmt.Sprintf("%s: bare send on %s", funcKey(fr.fn), ins.Chan.Name()))
}

func (fr *Frame) execRecv(ins *ssa.UnOp, c *blockCtx) {
	g := fr.g
	et := ins.X.Type().Underlying().(*types.Chan).Elem()
	v := g.sc.Fresh("recv", g.sortOf(et))
	g.sc.Assume(g.typeInv(v.S, et))
	g.assumeOld(v, g.curBase)
	if ins.CommaOk {
		ok := g.sc.Fresh("recvok", SBool)
		fr.tuples[ins] = []Term{v, ok}
		return
	}
	fr.vals[ins] = v
}

func (fr *Frame) execSelect(ins *ssa.Select, c *blockCtx) {
	g := fr.g
	idx := g.sc.Fresh("selidx", SInt)
	lo := "0"
	if !ins.Blocking {
		lo = "(- 1)"
	}
	g.sc.Assume(fmt.Sprintf("(and (<= %s %s) (< %s %d))", lo, idx.S, idx.S, len(ins.States)))
	res := []Term{idx}
	recvOk := g.sc.Fresh("selok", SBool)
	res = append(res, recvOk)
	for i, st := range ins.States {
		ch := fr.val(st.Chan)
		if st.Dir == types.SendOnly {
			fr.chanSend(c, ch, eq(idx.S, fmt.Sprint(i)))
			continue
		}
		et := st.Chan.Type().Underlying().(*types.Chan).Elem()
		v := g.sc.Fresh("selrecv", g.sortOf(et))
		g.sc.Assume(g.typeInv(v.S, et))
		g.assumeOld(v, g.curBase)
		res = append(res, v)
	}
	fr.tuples[ins] = res
}

package main

import (
	"golang.org/x/tools/go/ssa"
)

func (fr *Frame) execSend(ins *ssa.Send, c *blockCtx) {
	fr.g.fail("channel send not supported yet (%s)", funcKey(fr.fn))
}

func (fr *Frame) execRecv(ins *ssa.UnOp, c *blockCtx) {
	fr.g.fail("channel receive not supported yet (%s)", funcKey(fr.fn))
}

func (fr *Frame) execSelect(ins *ssa.Select, c *blockCtx) {
	fr.g.fail("select not supported yet (%s)", funcKey(fr.fn))
}

package main

import (
	"fmt"
	"go/ast"
	"go/token"
	"go/types"
	"os"
	"regexp"
	"sort"
	"strconv"
	"strings"

	"golang.org/x/tools/go/ssa"
)

type retPoint struct {
	reach string
	st    *State
	vals  []Term
	pos   string
	blk   *ssa.BasicBlock
}

type loopInfo struct {
	header *ssa.BasicBlock
	ord    int
	body   map[*ssa.BasicBlock]bool
	spec   *LoopSpec
	// set when the header is processed
	preSt    *State
	ghostCur map[string]Binding
	writes   []writeRec
	keeps    []keepRec
}

type writeRec struct {
	key      string
	elemSort string
	addr     string // "" = whole heap
	pattern  string // "elems:<arr>" for all elements of arr
}

// Frame is one activation (top-level function or inlined call).
type Frame struct {
	g              *Gen
	fn             *ssa.Function
	vals           map[ssa.Value]Term
	prefix         string
	contract       *FuncContract
	parent         *Frame
	pendingFree    map[string]Binding // captured variables of the function literal whose contract is being applied
	anchorArgs     []Term             // arguments of the call whose "before call" anchor is being fired ($a0, $a1, ...)
	firedAnchors   map[int]bool       // indices of contract.Asserts whose anchor was reached
	pkg            string
	entrySt        *State
	loops          map[*ssa.BasicBlock]*loopInfo
	loopList       []*loopInfo
	order          []*ssa.BasicBlock
	outSt          map[*ssa.BasicBlock]*State
	outReach       map[*ssa.BasicBlock]string
	edgeCond       map[*ssa.BasicBlock][]string
	rets           []retPoint
	params         map[string]Binding
	deferSites     []*ssa.Defer
	deferArgs      map[*ssa.Defer][]Term
	deferFn        map[*ssa.Defer]Term
	callOrd        map[string]int
	anchorResTypes []types.Type               // Go types of $rK for the anchor being fired
	srcOrd         map[ssa.Instruction]string // call instruction -> "Name@k" (source order), built lazily
	curBlock       *ssa.BasicBlock
	curLoopStack   []*loopInfo
	ghosts         map[string]Binding // function-level ghost variables (current values)
	tuples         map[ssa.Value][]Term
	closureOf      map[*ssa.MakeClosure]*closureVal
	splits         map[*ssa.BasicBlock][]string
	ranges         map[*ssa.Range]*rangeState
	arrViews       map[*ssa.Slice]arrView
	deferKey       map[*ssa.Defer]string
}

func (g *Gen) newFrame(fn *ssa.Function, parent *Frame, prefix string) *Frame {
	fr := &Frame{g: g, fn: fn, vals: map[ssa.Value]Term{}, prefix: prefix, parent: parent,
		outSt: map[*ssa.BasicBlock]*State{}, outReach: map[*ssa.BasicBlock]string{}, edgeCond: map[*ssa.BasicBlock][]string{},
		params: map[string]Binding{}, deferArgs: map[*ssa.Defer][]Term{}, deferFn: map[*ssa.Defer]Term{}, callOrd: map[string]int{},
		ghosts: map[string]Binding{}, tuples: map[ssa.Value][]Term{}, closureOf: map[*ssa.MakeClosure]*closureVal{},
		ranges: map[*ssa.Range]*rangeState{}, arrViews: map[*ssa.Slice]arrView{}, deferKey: map[*ssa.Defer]string{}}
	if fn.Pkg != nil {
		fr.pkg = fn.Pkg.Pkg.Path()
	} else if o := fn.Origin(); o != nil && o.Pkg != nil {
		fr.pkg = o.Pkg.Pkg.Path()
	} else if fn.Parent() != nil && parent != nil {
		fr.pkg = parent.pkg
	}
	fr.contract = g.W.contracts[funcKey(fn)]
	fr.analyzeLoops()
	return fr
}

// ---------- loop analysis ----------

func (fr *Frame) analyzeLoops() {
	fn := fr.fn
	fr.loops = map[*ssa.BasicBlock]*loopInfo{}
	if len(fn.Blocks) == 0 {
		return
	}
	// back edges: u -> h with h dominating u
	for _, u := range fn.Blocks {
		for _, h := range u.Succs {
			if h.Dominates(u) {
				li := fr.loops[h]
				if li == nil {
					li = &loopInfo{header: h, body: map[*ssa.BasicBlock]bool{h: true}}
					fr.loops[h] = li
				}
				// natural loop: nodes reaching u without passing h
				var stack []*ssa.BasicBlock
				if !li.body[u] {
					li.body[u] = true
					stack = append(stack, u)
				}
				for len(stack) > 0 {
					b := stack[len(stack)-1]
					stack = stack[:len(stack)-1]
					for _, p := range b.Preds {
						if !li.body[p] {
							li.body[p] = true
							stack = append(stack, p)
						}
					}
				}
			}
		}
	}
	var hs []*ssa.BasicBlock
	for h := range fr.loops {
		hs = append(hs, h)
	}
	sort.Slice(hs, func(i, j int) bool { return hs[i].Index < hs[j].Index })
	for i, h := range hs {
		li := fr.loops[h]
		li.ord = i
		if fr.contract != nil {
			li.spec = fr.contract.Loops[i]
		}
		fr.loopList = append(fr.loopList, li)
		if os.Getenv("GOWP_DEBUG_LOOPS") != "" && fr.parent == nil {
			pos := ""
			for _, ins := range h.Instrs {
				if ins.Pos().IsValid() {
					pos = fr.g.W.fset.Position(ins.Pos()).String()
					break
				}
			}
			fmt.Fprintf(os.Stderr, "loop %d of %s: header block %d (%s) %s\n", i, fr.fn.Name(), h.Index, h.Comment, pos)
		}
	}
	// topological order ignoring back edges (reverse postorder)
	seen := map[*ssa.BasicBlock]bool{}
	var post []*ssa.BasicBlock
	var dfs func(b *ssa.BasicBlock)
	dfs = func(b *ssa.BasicBlock) {
		seen[b] = true
		for _, s := range b.Succs {
			if s.Dominates(b) { // back edge
				continue
			}
			if !seen[s] {
				dfs(s)
			}
		}
		post = append(post, b)
	}
	dfs(fn.Blocks[0])
	// also the recover block is ignored
	for i := len(post) - 1; i >= 0; i-- {
		fr.order = append(fr.order, post[i])
	}
}

func isBackEdge(u, h *ssa.BasicBlock) bool { return h.Dominates(u) }

// ---------- values ----------

func (fr *Frame) val(v ssa.Value) Term {
	g := fr.g
	if t, ok := fr.vals[v]; ok {
		return t
	}
	switch v := v.(type) {
	case *ssa.Const:
		if v.Value == nil {
			return g.zero(v.Type())
		}
		return g.constTerm(v.Value, v.Type())
	case *ssa.Global:
		return Term{g.globalAddrSSA(v), SRef}
	case *ssa.Function:
		return Term{fmt.Sprintf("(Glob %d)", g.funcID(v)), SRef}
	case *ssa.Builtin:
		g.fail("builtin %s used as value", v.Name())
	}
	g.fail("value %s (%T) of %s not yet defined", v.Name(), v, fr.fn)
	return Term{}
}

func (g *Gen) globalID(key string) int {
	k := "glob:" + key
	if n, ok := g.tags[k]; ok {
		return n
	}
	n := len(g.tags) + 1
	g.tags[k] = n
	g.sc.Decl(fmt.Sprintf("; global %d = %s", n, key))
	return n
}

func (g *Gen) globalAddrSSA(v *ssa.Global) string {
	return fmt.Sprintf("(Glob %d)", g.globalID(v.Pkg.Pkg.Path()+"."+v.Name()))
}

func (g *Gen) globalAddr(v *types.Var) string {
	return fmt.Sprintf("(Glob %d)", g.globalID(v.Pkg().Path()+"."+v.Name()))
}

func (g *Gen) funcID(fn *ssa.Function) int { return g.globalID("func:" + fn.String()) }

func (fr *Frame) define(v ssa.Value, t Term) Term {
	name := v.Name()
	if fr.prefix != "" {
		name = fr.prefix + "_" + name
	}
	d := fr.g.sc.Define(name, t)
	fr.vals[v] = d
	return d
}

// ---------- obligations ----------

func (g *Gen) oblige(kind, name, reach, goal, src string, side bool) {
	if goal == "true" && kind != "unblock" {
		// trivially true goals carry no information; skip (unblock goals are kept: they are the proof rule's instances)
		return
	}
	g.obls = append(g.obls, &Obligation{Name: name, Kind: kind, Func: g.fnName, Prefix: g.sc.Len(), Reach: reach, Goal: goal, Src: src, Side: side, Splits: append([]string(nil), g.curSplits...)})
}

func (fr *Frame) oname(kind, label string) string {
	fn := funcKey(fr.fn)
	if fr.parent != nil {
		return fr.parent.onameRoot() + "/" + kind + "/" + fr.prefix + ":" + label
	}
	return fn + "/" + kind + "/" + label
}

func (fr *Frame) onameRoot() string {
	r := fr
	for r.parent != nil {
		r = r.parent
	}
	return funcKey(r.fn)
}

var safetyCount int

func (fr *Frame) safety(kind string, reach, goal string, instr ssa.Instruction) {
	if goal == "true" {
		return
	}
	pos := fr.g.W.fset.Position(instr.Pos())
	fr.callOrd["safety:"+kind]++
	label := fmt.Sprintf("%s@%d", kind, fr.callOrd["safety:"+kind])
	fr.g.oblige("safety", fr.oname("safety", label), reach, goal, fmt.Sprintf("%s:%d", shortPath(pos.Filename), pos.Line), true)
}

func shortPath(p string) string {
	if i := strings.Index(p, "/repo/"); i >= 0 {
		return p[i+6:]
	}
	return p
}

// ---------- state merging ----------

func (g *Gen) mergeStates(conds []string, sts []*State) *State {
	if len(sts) == 1 {
		return sts[0].clone()
	}
	out := &State{heaps: map[string]Term{}}
	keys := map[string]bool{}
	for _, s := range sts {
		for k := range s.heaps {
			keys[k] = true
		}
	}
	for _, k := range sortedKeys(keys) {
		var terms []Term
		same := true
		for _, s := range sts {
			t, ok := s.heaps[k]
			if !ok {
				// entry heap
				var es string
				for _, s2 := range sts {
					if t2, ok2 := s2.heaps[k]; ok2 {
						es = arrayElemSort(t2.Sort)
					}
				}
				t = g.entryHeap(k, es)
			}
			terms = append(terms, t)
			if t.S != terms[0].S {
				same = false
			}
		}
		if same {
			out.heaps[k] = terms[0]
			continue
		}
		acc := terms[len(terms)-1].S
		for i := len(terms) - 2; i >= 0; i-- {
			acc = ite(conds[i], terms[i].S, acc)
		}
		out.heaps[k] = g.sc.Define(k, Term{acc, terms[0].Sort})
	}
	return out
}

func mergeTerms(conds []string, ts []Term) Term {
	acc := ts[len(ts)-1].S
	for i := len(ts) - 2; i >= 0; i-- {
		acc = ite(conds[i], ts[i].S, acc)
	}
	return Term{acc, ts[0].Sort}
}

// ---------- executing a function body ----------

// execBody symbolically executes fr.fn from state st0 under reach0 (parameters must already be bound).
// It returns the merged exit state, results and the condition under which the function returns normally.
func (fr *Frame) execBody(st0 *State, reach0 string) (*State, []Term, string) {
	g := fr.g
	fn := fr.fn
	if len(fn.Blocks) == 0 {
		g.fail("function %s has no body", fn)
	}
	if fr.parent == nil && fr.contract != nil {
		for _, gs := range append(append([]GhostLoopVar(nil), fr.contract.GhostSets...), fr.contract.GhostRets...) {
			if gs.Target != nil {
				continue
			}
			g.getGhost(st0, gs.Name, "Nil") // materialise the ghost heap so that old() sees the same symbol
		}
	}
	fr.entrySt = st0.clone()
	if fr.parent == nil && fr.contract != nil {
		// ghost statements executed on entry
		for _, gs := range fr.contract.GhostSets {
			env := fr.baseEnv(st0)
			env.old = fr.entrySt
			t, _ := env.tr(gs.Init)
			g.setGhost(st0, gs.Name, "Nil", t.S)
		}
	}
	for _, b := range fr.order {
		fr.execBlock(b, st0, reach0)
	}
	if len(fr.rets) == 0 {
		// never returns
		return st0.clone(), nil, "false"
	}
	var conds []string
	var sts []*State
	for _, r := range fr.rets {
		conds = append(conds, r.reach)
		sts = append(sts, r.st)
	}
	exit := g.mergeStates(conds, sts)
	var results []Term
	nres := len(fr.rets[0].vals)
	for i := 0; i < nres; i++ {
		var ts []Term
		for _, r := range fr.rets {
			ts = append(ts, r.vals[i])
		}
		results = append(results, g.sc.Define(fr.prefix+"_ret", mergeTerms(conds, ts)))
	}
	return exit, results, g.sc.Define(fr.prefix+"_retreach", Term{or(conds...), SBool}).S
}

func (fr *Frame) execBlock(b *ssa.BasicBlock, st0 *State, reach0 string) {
	g := fr.g
	fr.curBlock = b
	var st *State
	var reach string
	li := fr.loops[b]
	// forward predecessors
	var fconds []string
	var fsts []*State
	var fpreds []*ssa.BasicBlock
	for _, p := range b.Preds {
		if isBackEdge(p, b) {
			continue
		}
		ps, ok := fr.outSt[p]
		if !ok {
			continue // unreachable predecessor (e.g. recover block)
		}
		c := and(fr.outReach[p], fr.edgeCondTo(p, b))
		if c == "false" {
			continue
		}
		fconds = append(fconds, c)
		fsts = append(fsts, ps)
		fpreds = append(fpreds, p)
	}
	if b.Index == 0 {
		st = st0.clone()
		reach = reach0
	} else if li != nil && len(fsts) == 0 {
		fr.outSt[b] = st0.clone()
		fr.outReach[b] = "false"
		fr.edgeCond[b] = make([]string, len(b.Succs))
		for i := range fr.edgeCond[b] {
			fr.edgeCond[b][i] = "false"
		}
		return
	} else {
		if len(fsts) == 0 {
			// unreachable block
			fr.outSt[b] = st0.clone()
			fr.outReach[b] = "false"
			fr.edgeCond[b] = make([]string, len(b.Succs))
			for i := range fr.edgeCond[b] {
				fr.edgeCond[b][i] = "false"
			}
			// define instructions' values lazily: skip
			return
		}
		st = g.mergeStates(fconds, fsts)
		reach = g.sc.Define(fmt.Sprintf("%sreach_b%d", fr.prefix, b.Index), Term{or(fconds...), SBool}).S
	}
	// case-split context: the incoming edges of the nearest merge (inherited along single-predecessor chains)
	if fr.splits == nil {
		fr.splits = map[*ssa.BasicBlock][]string{}
	}
	switch {
	case li != nil:
		fr.splits[b] = nil
	case len(fconds) > 1 && len(fconds) <= 6:
		var cs []string
		for i, c := range fconds {
			cs = append(cs, g.sc.Define(fmt.Sprintf("%sedge_b%d_%d", fr.prefix, b.Index, i), Term{c, SBool}).S)
		}
		fr.splits[b] = cs
	case len(fpreds) == 1:
		fr.splits[b] = fr.splits[fpreds[0]]
	}
	prevSplits := g.curSplits
	g.curSplits = fr.splits[b]
	defer func() { g.curSplits = prevSplits }()
	g.sc.Comment("---- %s block %d (%s)", fr.fn.Name(), b.Index, b.Comment)

	// phis
	phiIn := func(phi *ssa.Phi) Term {
		var ts []Term
		for _, p := range fpreds {
			for i, pp := range b.Preds {
				if pp == p {
					ts = append(ts, fr.val(phi.Edges[i]))
					break
				}
			}
		}
		return mergeTerms(fconds, ts)
	}
	if li == nil {
		for _, ins := range b.Instrs {
			phi, ok := ins.(*ssa.Phi)
			if !ok {
				break
			}
			fr.define(phi, phiIn(phi))
		}
	} else {
		st, reach = fr.enterLoop(li, b, st, reach, phiIn)
	}

	// instructions
	fr.curBlock = b
	cur := &blockCtx{st: st, reach: reach}
	for _, ins := range b.Instrs {
		if _, ok := ins.(*ssa.Phi); ok {
			continue
		}
		fr.execInstr(ins, cur)
	}
	fr.outSt[b] = cur.st
	fr.outReach[b] = cur.reach
	if fr.edgeCond[b] == nil {
		fr.edgeCond[b] = make([]string, len(b.Succs))
		for i := range b.Succs {
			fr.edgeCond[b][i] = "true"
		}
	}
	// exit edges of loops: anchors "after loop N" (clauses about what a loop has established when it is left,
	// by its condition or by a break)
	if fr.contract != nil && len(fr.contract.Asserts) > 0 {
		for i, s := range b.Succs {
			for _, l := range fr.loopList {
				if l.body[b] && !l.body[s] {
					ec := and(cur.reach, fr.edgeCond[b][i])
					if ec == "false" {
						continue
					}
					fr.curBlock = b
					if os.Getenv("GOWP_DEBUG_LOOPS") != "" {
						fmt.Fprintf(os.Stderr, "exit edge loop %d: b%d -> b%d\n", l.ord, b.Index, s.Index)
					}
					fr.anchor(fmt.Sprintf("after loop %d", l.ord), &blockCtx{st: cur.st.clone(), reach: ec}, nil)
				}
			}
		}
	}
	// back edges out of this block
	for i, s := range b.Succs {
		if isBackEdge(b, s) {
			fr.backEdge(fr.loops[s], b, and(cur.reach, fr.edgeCond[b][i]), cur.st)
		}
	}
}

func (fr *Frame) edgeCondTo(p, b *ssa.BasicBlock) string {
	ec := fr.edgeCond[p]
	var cs []string
	for i, s := range p.Succs {
		if s == b {
			cs = append(cs, ec[i])
		}
	}
	return or(cs...)
}

type blockCtx struct {
	st    *State
	reach string
}

// ---------- loops ----------

// phisOf returns the phi nodes of block b.
func phisOf(b *ssa.BasicBlock) []*ssa.Phi {
	var out []*ssa.Phi
	for _, ins := range b.Instrs {
		if p, ok := ins.(*ssa.Phi); ok {
			out = append(out, p)
		} else {
			break
		}
	}
	return out
}

func (fr *Frame) loopEnv(li *loopInfo, st *State, phiVal func(*ssa.Phi) Term, ghosts map[string]Binding) *Env {
	env := fr.baseEnv(st)
	env.resolve = func(name string, st *State) (Term, Ty, bool) {
		if gb, ok := ghosts[name]; ok {
			return gb.T, gb.Ty, true
		}
		for _, phi := range phisOf(li.header) {
			if phi.Comment == name {
				return phiVal(phi), goTy(phi.Type()), true
			}
			if name == "$i" && phi.Comment == "rangeindex" {
				// number of completed iterations of a range-over-slice loop
				return Term{"(+ " + phiVal(phi).S + " 1)", SInt}, mathInt, true
			}
		}
		if name == "$io" {
			// index of the current element of the innermost enclosing range-over-slice loop
			var outer *loopInfo
			for _, lo := range fr.loopList {
				if lo != li && lo.body[li.header] && (outer == nil || len(lo.body) < len(outer.body)) {
					outer = lo
				}
			}
			if outer != nil {
				for _, phi := range phisOf(outer.header) {
					if phi.Comment == "rangeindex" {
						if t, ok := fr.vals[phi]; ok {
							return Term{"(+ " + t.S + " 1)", SInt}, mathInt, true
						}
					}
				}
			}
		}
		if name == "$visited" {
			// set of keys already yielded by the map range of this loop
			for _, ins := range li.header.Instrs {
				nx, ok := ins.(*ssa.Next)
				if !ok {
					continue
				}
				rng, ok := nx.Iter.(*ssa.Range)
				if !ok || fr.ranges[rng] == nil {
					continue
				}
				mv := fr.g.mapHeaps(fr.ranges[rng].mt)
				vis := sel(fr.g.heap(st, "Rvisited_"+sortKey(mv.keySort), mv.domSort).S, fr.val(rng).S)
				return Term{vis, mv.domSort}, Ty{Spec: mv.domSort}, true
			}
		}
		return fr.resolveLocal(name, li.header, st)
	}
	return env
}

func (fr *Frame) baseEnv(st *State) *Env {
	env := &Env{g: fr.g, pkg: fr.pkg, vars: map[string]Binding{}, st: st, old: fr.rootEntry()}
	for k, v := range fr.params {
		env.vars[k] = v
	}
	for k, v := range fr.ghosts {
		env.vars[k] = v
	}
	env.resolve = func(name string, s2 *State) (Term, Ty, bool) {
		return fr.resolveFreeVar(name, s2)
	}
	env.resolveAddr = fr.localAddr
	return env
}

// localAddr returns the address of an address-taken local variable or of a captured variable.
func (fr *Frame) localAddr(name string) (string, types.Type, bool) {
	for _, fv := range fr.fn.FreeVars {
		if fv.Name() == name {
			if t, ok := fr.vals[fv]; ok {
				if p, ok := fv.Type().Underlying().(*types.Pointer); ok {
					return t.S, p.Elem(), true
				}
			}
		}
	}
	for _, b := range fr.fn.Blocks {
		for _, ins := range b.Instrs {
			if al, ok := ins.(*ssa.Alloc); ok && al.Comment == name {
				if t, ok := fr.vals[al]; ok {
					return t.S, al.Type().Underlying().(*types.Pointer).Elem(), true
				}
			}
		}
	}
	return "", nil, false
}

// resolveFreeVar resolves a captured variable of a closure by name (loaded through its cell).
func (fr *Frame) resolveFreeVar(name string, st *State) (Term, Ty, bool) {
	g := fr.g
	for _, fv := range fr.fn.FreeVars {
		if fv.Name() == name {
			t, ok := fr.vals[fv]
			if !ok {
				return Term{}, Ty{}, false
			}
			if p, ok := fv.Type().Underlying().(*types.Pointer); ok {
				return g.load(st, t.S, p.Elem()), goTy(p.Elem()), true
			}
			return t, goTy(fv.Type()), true
		}
	}
	return Term{}, Ty{}, false
}

func (fr *Frame) rootEntry() *State {
	return fr.entrySt
}

// resolveLocal finds the value of source variable name at the entry of block at.
func (fr *Frame) resolveLocal(name string, at *ssa.BasicBlock, st *State) (Term, Ty, bool) {
	g := fr.g
	// free variables (captured by reference: pointer to the variable)
	for _, fv := range fr.fn.FreeVars {
		if fv.Name() == name {
			t, ok := fr.vals[fv]
			if !ok {
				return Term{}, Ty{}, false
			}
			if p, ok := fv.Type().Underlying().(*types.Pointer); ok {
				return g.load(st, t.S, p.Elem()), goTy(p.Elem()), true
			}
			return t, goTy(fv.Type()), true
		}
	}
	type cand struct {
		depth, idx int
		val        ssa.Value
		isAddr     bool
	}
	var best *cand
	consider := func(c cand) {
		if best == nil || c.depth > best.depth || (c.depth == best.depth && c.idx > best.idx) {
			cc := c
			best = &cc
		}
	}
	domDepth := func(b *ssa.BasicBlock) int {
		d := 0
		for x := b.Idom(); x != nil; x = x.Idom() {
			d++
		}
		return d
	}
	for _, b := range fr.fn.Blocks {
		strict := b != at
		if !(b.Dominates(at)) {
			continue
		}
		if !strict {
			// only phis of 'at' itself are handled by the caller
			continue
		}
		d := domDepth(b)
		for i, ins := range b.Instrs {
			switch ins := ins.(type) {
			case *ssa.Phi:
				if ins.Comment == name {
					consider(cand{d, i, ins, false})
				}
			case *ssa.DebugRef:
				if id, ok := ins.Expr.(*ast.Ident); ok && id.Name == name {
					if al := fr.allocOfVar(ins); al != nil && !ins.IsAddr {
						// the variable lives in memory (its address is taken): the value noted at an
						// assignment is stale after later stores through the address
						consider(cand{d, i, al, true})
					} else if fv := fr.freeVarOf(ins); fv != nil && !ins.IsAddr {
						// a captured variable lives in its cell: read it in the state asked for
						consider(cand{d, i, fv, true})
					} else {
						consider(cand{d, i, ins.X, ins.IsAddr})
					}
				}
			case *ssa.Alloc:
				if ins.Comment == name {
					consider(cand{d, i, ins, true})
				}
			}
		}
	}
	if best == nil {
		return Term{}, Ty{}, false
	}
	t, ok := fr.vals[best.val]
	if !ok {
		if c, isC := best.val.(*ssa.Const); isC {
			t = fr.val(c)
		} else {
			return Term{}, Ty{}, false
		}
	}
	if best.isAddr {
		p := best.val.Type().Underlying().(*types.Pointer)
		return g.load(st, t.S, p.Elem()), goTy(p.Elem()), true
	}
	return t, goTy(best.val.Type()), true
}

// freeVarOf returns the captured-variable cell a debug reference names, if the variable is captured by
// reference by this function literal.
func (fr *Frame) freeVarOf(d *ssa.DebugRef) *ssa.FreeVar {
	obj := d.Object()
	if obj == nil {
		return nil
	}
	for _, fv := range fr.fn.FreeVars {
		if fv.Name() != obj.Name() {
			continue
		}
		if _, ok := fv.Type().Underlying().(*types.Pointer); !ok {
			continue
		}
		if fv.Pos() == obj.Pos() || !fv.Pos().IsValid() {
			return fv
		}
	}
	return nil
}

// allocOfVar returns the allocation that holds the source variable a debug reference names, if the variable
// lives in memory.
func (fr *Frame) allocOfVar(d *ssa.DebugRef) *ssa.Alloc {
	obj := d.Object()
	if obj == nil {
		return nil
	}
	for _, b := range fr.fn.Blocks {
		for _, ins := range b.Instrs {
			if al, ok := ins.(*ssa.Alloc); ok && al.Comment == obj.Name() && al.Pos() == obj.Pos() {
				return al
			}
		}
	}
	return nil
}

// enterLoop handles a loop header: invariant on entry, havoc, assume invariant.
func (fr *Frame) enterLoop(li *loopInfo, b *ssa.BasicBlock, st *State, reach string, phiIn func(*ssa.Phi) Term) (*State, string) {
	g := fr.g
	if li.spec == nil || (len(li.spec.Invariants) == 0 && li.spec.Bound == 0) {
		g.fail("loop %d of %s has no invariant", li.ord, funcKey(fr.fn))
	}
	g.sc.Comment("loop %d header", li.ord)
	// ghost loop variables: initial values
	ghostInit := map[string]Binding{}
	for _, gv := range li.spec.Ghosts {
		env := fr.loopEnv(li, st, phiIn, ghostInit)
		t, _ := env.tr(gv.Init)
		ty := g.W.resolveType(fr.pkg, gv.Type, g)
		ghostInit[gv.Name] = Binding{g.sc.Define("ghost_"+gv.Name, Term{t.S, g.tySort(ty)}), ty}
	}
	// 1. invariant holds on entry
	envEntry := fr.loopEnv(li, st, phiIn, ghostInit)
	for i, inv := range li.spec.Invariants {
		label := inv.Label
		if label == "" {
			label = fmt.Sprint(i)
		}
		f := envEntry.trBool(inv.E)
		g.oblige("inv-entry", fr.oname("inv-entry", fmt.Sprintf("loop%d/%s", li.ord, label)), reach, f, inv.Src, false)
	}
	// 2. determine the write set of the body by a dry run
	writes := fr.dryRunLoop(li, b, st, reach)
	li.writes = writes
	li.preSt = st.clone()
	// 3. havoc
	hst := st.clone()
	// new allocation base
	preTop := g.allocTop()
	nb := g.sc.Fresh("base", SInt)
	g.sc.Assume(fmt.Sprintf("(>= %s (+ %s %d))", nb.S, g.curBase, g.allocN+1))
	g.curBase = nb.S
	var keepP *[]keepRec
	if li.spec.KeepsOld {
		li.keeps = nil
		keepP = &li.keeps
	}
	g.havocWrites(hst, st, writes, nb.S, preTop, keepP)
	havocPhi := map[*ssa.Phi]Term{}
	for _, phi := range phisOf(b) {
		nm := phi.Comment
		if nm == "" {
			nm = phi.Name()
		}
		t := g.sc.Fresh(fr.prefix+"loop_"+nm, g.sortOf(phi.Type()))
		g.sc.Assume(g.typeInv(t.S, phi.Type()))
		g.assumeOld(t, nb.S)
		if phi.Comment == "rangeindex" {
			// a range-over-slice index starts at -1 and only ever increments
			g.sc.Assume("(>= " + t.S + " (- 1))")
		}
		havocPhi[phi] = t
		fr.vals[phi] = t
	}
	ghostCur := map[string]Binding{}
	for _, gv := range li.spec.Ghosts {
		ty := ghostInit[gv.Name].Ty
		t := g.sc.Fresh("ghost_"+gv.Name, g.tySort(ty))
		ghostCur[gv.Name] = Binding{t, ty}
	}
	li.ghostCur = ghostCur
	// 4. assume invariant
	envH := fr.loopEnv(li, hst, func(p *ssa.Phi) Term { return havocPhi[p] }, ghostCur)
	for _, inv := range li.spec.Invariants {
		g.sc.Assume(implies(reach, envH.trBool(inv.E)))
	}
	return hst, reach
}

// assumeOld states that references in t are not newer than base.
func (g *Gen) assumeOld(t Term, base string) {
	switch t.Sort {
	case SRef:
		g.sc.Assume(fmt.Sprintf("(<= (rootOid %s) %s)", t.S, base))
	case SSlice:
		g.sc.Assume(fmt.Sprintf("(<= (rootOid (sarr %s)) %s)", t.S, base))
	case SIface:
		g.sc.Assume(fmt.Sprintf("(<= (rootOid (iref %s)) %s)", t.S, base))
	}
}

func (fr *Frame) backEdge(li *loopInfo, u *ssa.BasicBlock, reach string, st *State) {
	g := fr.g
	if li == nil || li.spec == nil {
		return
	}
	idx := -1
	for i, p := range li.header.Preds {
		if p == u {
			idx = i
		}
	}
	phiVal := func(phi *ssa.Phi) Term { return fr.val(phi.Edges[idx]) }
	// anchors "end of loop N": lemmas about the state an iteration leaves behind, stated before the invariant is
	// re-established (assert-then-assume, like any anchored clause)
	if fr.contract != nil && len(fr.contract.Asserts) > 0 {
		save := fr.curBlock
		fr.curBlock = u
		// ghost assignments at this anchor concern this back edge only: work on a copy of the state
		st = st.clone()
		fr.anchor(fmt.Sprintf("end of loop %d", li.ord), &blockCtx{st: st, reach: reach}, nil)
		fr.curBlock = save
	}
	// ghost updates
	ghostNext := map[string]Binding{}
	for k, v := range li.ghostCur {
		ghostNext[k] = v
	}
	for _, gv := range li.spec.Ghosts {
		// update is evaluated with the header (current iteration) values of program variables and ghosts
		env := fr.loopEnv(li, st, func(phi *ssa.Phi) Term { return fr.vals[phi] }, li.ghostCur)
		if gv.AtEnd {
			env = fr.loopEnv(li, st, phiVal, li.ghostCur)
		}
		t, _ := env.tr(gv.Update)
		ghostNext[gv.Name] = Binding{g.sc.Define("ghostn_"+gv.Name, Term{t.S, li.ghostCur[gv.Name].T.Sort}), li.ghostCur[gv.Name].Ty}
	}
	env := fr.loopEnv(li, st, phiVal, ghostNext)
	for i, inv := range li.spec.Invariants {
		label := inv.Label
		if label == "" {
			label = fmt.Sprint(i)
		}
		f := env.trBool(inv.E)
		g.oblige("inv-preserve", fr.oname("inv-preserve", fmt.Sprintf("loop%d/%s@b%d", li.ord, label, u.Index)), reach, f, inv.Src, false)
	}
	// keeps-old: the body changed memory that existed at function entry only at the iteration-independent addresses
	for _, k := range li.keeps {
		cur := g.heap(st, k.key, k.elemSort)
		al := append([]string(nil), k.allowed...)
		for _, a := range g.viewArrs {
			if a.key == k.key {
				al = append(al, a.pred) // element views materialised in the body are not writes
			}
		}
		f := fmt.Sprintf("(forall ((r Ref)) (! (or %s (= (select %s r) (select %s r))) :pattern ((select %s r))))", strings.Join(al, " "), cur.S, k.pre, cur.S)
		g.oblige("inv-preserve", fr.oname("inv-preserve", fmt.Sprintf("loop%d/keeps-old/%s@b%d", li.ord, strings.TrimPrefix(strings.TrimPrefix(k.key, "H_"), "G_"), u.Index)), reach, f, "keeps-old", false)
	}
}

// dryRunLoop executes the loop body once on a scratch copy of the script to collect the write set.
func (fr *Frame) dryRunLoop(li *loopInfo, h *ssa.BasicBlock, st *State, reach string) []writeRec {
	g := fr.g
	snapLines, snapN, snapObls, snapAlloc, snapBase := len(g.sc.lines), g.sc.n, len(g.obls), g.allocN, g.curBase
	saveVals := map[ssa.Value]Term{}
	for k, v := range fr.vals {
		saveVals[k] = v
	}
	saveOut, saveReach, saveEdge := fr.outSt, fr.outReach, fr.edgeCond
	fr.outSt, fr.outReach, fr.edgeCond = map[*ssa.BasicBlock]*State{}, map[*ssa.BasicBlock]string{}, map[*ssa.BasicBlock][]string{}
	for k, v := range saveOut {
		fr.outSt[k] = v
	}
	for k, v := range saveReach {
		fr.outReach[k] = v
	}
	for k, v := range saveEdge {
		fr.edgeCond[k] = v
	}
	saveRets := fr.rets
	saveOrd := map[string]int{}
	for k, v := range fr.callOrd {
		saveOrd[k] = v
	}
	saveGhosts := map[string]Binding{}
	for k, v := range fr.ghosts {
		saveGhosts[k] = v
	}
	g.dry++
	log := &writeLog{snapN: snapN, snapAlloc: snapAlloc, snapBase: snapBase}
	prevLog := g.wlog
	g.wlog = log
	var failure any
	func() {
		defer func() {
			if r := recover(); r != nil {
				failure = r
			}
		}()
		// havoc phis with fresh constants, everything else as is
		for _, phi := range phisOf(h) {
			t := g.sc.Fresh("dry_"+phi.Name(), g.sortOf(phi.Type()))
			fr.vals[phi] = t
		}
		// ghost loop vars
		li.ghostCur = map[string]Binding{}
		if li.spec != nil {
			for _, gv := range li.spec.Ghosts {
				ty := g.W.resolveType(fr.pkg, gv.Type, g)
				li.ghostCur[gv.Name] = Binding{g.sc.Fresh("dryghost", g.tySort(ty)), ty}
			}
		}
		dst := st.clone()
		cur := &blockCtx{st: dst, reach: reach}
		fr.curBlock = h
		for _, ins := range h.Instrs {
			if _, ok := ins.(*ssa.Phi); ok {
				continue
			}
			fr.execInstr(ins, cur)
		}
		fr.outSt[h] = cur.st
		fr.outReach[h] = cur.reach
		if fr.edgeCond[h] == nil {
			fr.edgeCond[h] = make([]string, len(h.Succs))
			for i := range h.Succs {
				fr.edgeCond[h][i] = "true"
			}
		}
		for _, b := range fr.order {
			if b == h || !li.body[b] {
				continue
			}
			fr.execBlockDry(b, li)
		}
	}()
	g.dry--
	g.wlog = prevLog
	// rollback
	g.sc.lines = g.sc.lines[:snapLines]
	g.sc.n = snapN
	g.obls = g.obls[:snapObls]
	g.allocN = snapAlloc
	g.curBase = snapBase
	fr.vals = saveVals
	fr.outSt, fr.outReach, fr.edgeCond = saveOut, saveReach, saveEdge
	fr.rets = saveRets
	fr.callOrd = saveOrd
	fr.ghosts = saveGhosts
	if failure != nil {
		panic(failure)
	}
	// propagate writes to the enclosing dry run (nested loops)
	if prevLog != nil {
		for _, w := range log.recs {
			prevLog.add(g, w.key, w.elemSort, w.addr, w.pattern)
		}
	}
	return log.recs
}

// execBlockDry processes a loop-body block during a dry run (inner loops are handled by execBlock itself).
func (fr *Frame) execBlockDry(b *ssa.BasicBlock, li *loopInfo) {
	fr.execBlock(b, fr.entrySt, "false")
}

type writeLog struct {
	snapAlloc int
	snapBase  string
	snapN     int
	recs      []writeRec
	seen      map[string]bool
}

// usesDryNames reports whether term mentions a name introduced after the snapshot.
func (l *writeLog) variant(term string) bool {
	// names look like prefix!N
	for i := 0; i < len(term); i++ {
		if term[i] == '!' {
			j := i + 1
			n := 0
			for j < len(term) && term[j] >= '0' && term[j] <= '9' {
				n = n*10 + int(term[j]-'0')
				j++
			}
			if j > i+1 && n > l.snapN {
				// heap entry names are "H_x!0" and str!k: those have small numbers; fine
				return true
			}
		}
	}
	return false
}

func (l *writeLog) add(g *Gen, key, elemSort, addr, pattern string) {
	origAddr := addr
	if addr != "" {
		addr = g.sc.expandAddr(addr)
	}
	if l.seen == nil {
		l.seen = map[string]bool{}
	}
	if addr != "" && l.inLoopAlloc(rootToken(addr)) {
		addr = ""
		pattern = "fresh"
	}
	if addr != "" && l.variant(addr) {
		// try the elements pattern: (Elem base idx) with invariant base
		if root := rootToken(addr); g.freshNames[root] || strings.HasPrefix(root, "(Obj ") {
			// a cell of an object allocated inside the loop body: cannot alias anything older
			pattern = "fresh"
		} else if arr, ok := innerElemArr(addr); ok && !l.variant(arr) {
			pattern = "elems:" + arr
			if strings.HasPrefix(addr, "(Elem ") {
				pattern = "elems0:" + arr // the element cells themselves, not fields inside elements
			}
		} else if sh, ok := addrShape(addr); ok {
			pattern = "shape:" + sh
		} else if strings.HasPrefix(addr, "(Fld ") {
			// field i of some object that changes with the iteration: only cells (Fld _ i) can be written
			inner := firstArg(addr[len("(Fld "):])
			rest := strings.TrimSpace(addr[len("(Fld ")+len(inner) : len(addr)-1])
			if rest != "" && !strings.ContainsAny(rest, " ()") {
				pattern = "fld:" + rest
			} else {
				pattern = ""
			}
		} else {
			pattern = ""
		}
		addr = ""
	}
	if pattern != "" && (strings.HasPrefix(pattern, "elems:") || strings.HasPrefix(pattern, "elems0:")) && l.variant(pattern) {
		pattern = "shape:"
	}
	if os.Getenv("GOWP_DEBUG_WRITES") != "" {
		fmt.Fprintf(os.Stderr, "write %s addr=%q pattern=%q (orig %q)\n", key, addr, pattern, origAddr)
	}
	k := key + "|" + addr + "|" + pattern
	if l.seen[k] {
		return
	}
	l.seen[k] = true
	l.recs = append(l.recs, writeRec{key, elemSort, addr, pattern})
}

func firstArg(s string) string {
	// s starts at the first argument of an application
	depth := 0
	for i := 0; i < len(s); i++ {
		switch s[i] {
		case '(':
			depth++
		case ')':
			if depth == 0 {
				return s[:i]
			}
			depth--
			if depth == 0 {
				return s[:i+1]
			}
		case ' ':
			if depth == 0 {
				return s[:i]
			}
		}
	}
	return s
}

// havocWrites replaces the written locations in hst by unknown values (relative to pre-state st).
// keepRec: for a loop declared "keeps-old", the heap components whose havoc is refined by "memory that existed at
// function entry changes only at iteration-independent addresses"; the same formula is an obligation at back edges.
type keepRec struct {
	key, elemSort string
	allowed       []string // disjuncts over r
	pre           string   // heap term at loop entry
}

func (g *Gen) havocWrites(hst, st *State, writes []writeRec, base string, preTop string, keep *[]keepRec) {
	byKey := map[string][]writeRec{}
	for _, w := range writes {
		byKey[w.key] = append(byKey[w.key], w)
	}
	for _, key := range sortedKeys(byKey) {
		ws := byKey[key]
		es := ws[0].elemSort
		old := g.heap(st, key, es)
		whole := false
		var shapes []string
		fresh := false
		var addrs, pats, pats0, flds []string
		for _, w := range ws {
			switch {
			case w.addr != "":
				addrs = append(addrs, w.addr)
			case w.pattern == "fresh":
				fresh = true
			case strings.HasPrefix(w.pattern, "shape:"):
				shapes = append(shapes, strings.TrimPrefix(w.pattern, "shape:"))
			case strings.HasPrefix(w.pattern, "fld:"):
				flds = append(flds, strings.TrimPrefix(w.pattern, "fld:"))
			case strings.HasPrefix(w.pattern, "elems0:"):
				pats0 = append(pats0, strings.TrimPrefix(w.pattern, "elems0:"))
			case w.pattern != "":
				pats = append(pats, strings.TrimPrefix(w.pattern, "elems:"))
			default:
				whole = true
			}
		}
		nh := g.sc.Fresh(key, old.Sort)
		g.heapWF(nh.S, es, base, false)
		if !whole {
			var ds []string
			for _, a := range addrs {
				ds = append(ds, "(= r "+a+")")
			}
			for _, p := range pats {
				// (elements of the nil array do not exist: an index into a nil slice panics)
				ds = append(ds, "(and (not (= "+p+" Nil)) (= (elemArr r) "+p+"))")
			}
			for _, p := range pats0 {
				ds = append(ds, "(and ((_ is Elem) r) (= (ebase r) "+p+"))")
			}
			for _, sh := range shapes {
				ds = append(ds, shapePred("r", sh))
			}
			for _, f := range flds {
				ds = append(ds, "(and ((_ is Fld) r) (= (fid r) "+f+"))")
			}
			if fresh {
				ds = append(ds, "(> (rootOid r) "+preTop+")")
			}
			g.sc.Assume(fmt.Sprintf("(forall ((r Ref)) (! (or %s (= (select %s r) (select %s r))) :pattern ((select %s r))))",
				strings.Join(ds, " "), nh.S, old.S, nh.S))
			if keep != nil && (len(shapes) > 0 || fresh) {
				var ks []string
				for _, a := range addrs {
					ks = append(ks, "(= r "+a+")")
				}
				for _, p := range pats {
					ks = append(ks, "(and (not (= "+p+" Nil)) (= (elemArr r) "+p+"))")
				}
				for _, p := range pats0 {
					ks = append(ks, "(and ((_ is Elem) r) (= (ebase r) "+p+"))")
				}
				ks = append(ks, "(> (rootOid r) allocBase)")
				g.sc.Assume(fmt.Sprintf("(forall ((r Ref)) (! (or %s (= (select %s r) (select %s r))) :pattern ((select %s r))))",
					strings.Join(ks, " "), nh.S, old.S, nh.S))
				*keep = append(*keep, keepRec{key, es, ks, old.S})
			}
		}
		hst.heaps[key] = nh
		if key == "H_Int_uint8" && !whole {
			var conds []string
			for _, a := range addrs {
				conds = append(conds, "(or (not ((_ is Elem) "+a+")) (not (= (sarr s) (ebase "+a+"))))")
			}
			for _, p := range pats {
				conds = append(conds, "(not (= (sarr s) "+p+"))")
			}
			if len(shapes) == 0 {
				if fresh {
					conds = append(conds, "(<= (rootOid (sarr s)) "+preTop+")")
				}
				g.bytesFrame(nh.S, old.S, and(conds...))
			}
		}
	}
}

// ---------- top-level verification of a function ----------

func (g *Gen) bindParams(fr *Frame, fresh bool) []Term {
	fn := fr.fn
	var terms []Term
	var names []string
	fc := fr.contract
	pnames := []string(nil)
	if fc != nil {
		pnames = fc.ParamNames
		if fc.Recv != "" && len(pnames) == len(fn.Params)+1 {
			pnames = pnames[1:] // closure of a method: the receiver is a free variable, not a parameter
		}
	}
	for i, p := range fn.Params {
		name := p.Name()
		if fc != nil && i < len(pnames) && pnames[i] != "" && pnames[i] != "_" && pnames[i] != "_recv" {
			name = pnames[i]
		} else if false && i < len(fc.ParamNames) && fc.ParamNames[i] != "" && fc.ParamNames[i] != "_" && fc.ParamNames[i] != "_recv" {
			name = fc.ParamNames[i]
		}
		names = append(names, name)
	}
	for i, p := range fn.Params {
		t := g.sc.Fresh("p_"+names[i], g.sortOf(p.Type()))
		g.sc.Assume(g.typeInv(t.S, p.Type()))
		g.assumeOld(t, "allocBase")
		fr.vals[p] = t
		fr.params[names[i]] = Binding{t, goTy(p.Type())}
		if p.Name() != names[i] {
			fr.params[p.Name()] = Binding{t, goTy(p.Type())}
		}
		terms = append(terms, t)
	}
	for _, fv := range fn.FreeVars {
		t := g.sc.Fresh("fv_"+fv.Name(), g.sortOf(fv.Type()))
		g.assumeOld(t, "allocBase")
		fr.vals[fv] = t
		if p, ok := fv.Type().Underlying().(*types.Pointer); ok {
			_ = p
			fr.params["&"+fv.Name()] = Binding{t, goTy(fv.Type())}
			// the cell of a variable captured by a function literal exists (a bound-method wrapper holds its
			// receiver in a free variable instead: nothing is assumed there)
			if fn.Synthetic == "" && fn.Parent() != nil {
				g.sc.Assume(not(eq(t.S, "Nil")))
			}
		}
	}
	g.bindUncaptured(fr)
	return terms
}

// bindUncaptured makes the variables of the enclosing functions that a function literal's contract mentions
// but the literal does not capture (any more) available to the contract, as unconstrained values of their
// type: a closure contract speaks about all values of the enclosing variables, so a clause that relates the
// closure's effect to such a variable then fails with a model instead of leaving the contract unbound.
func (g *Gen) bindUncaptured(fr *Frame) {
	fn, fc := fr.fn, fr.contract
	if fn.Parent() == nil || fc == nil || fn.Syntax() == nil || fn.Pkg == nil || fc.File == "" {
		return
	}
	idents := contractIdents(fc)
	if len(idents) == 0 {
		return
	}
	pos := fn.Syntax().Pos()
	pkgScope := fn.Pkg.Pkg.Scope()
	sc := pkgScope.Innermost(pos)
	captured := map[string]bool{}
	for _, fv := range fn.FreeVars {
		captured[fv.Name()] = true
	}
	for ; sc != nil && sc != pkgScope && sc != types.Universe; sc = sc.Parent() {
		if sc.Parent() == pkgScope {
			break // file scope: imports
		}
		for _, name := range sc.Names() {
			if !idents[name] || captured[name] {
				continue
			}
			if _, ok := fr.params[name]; ok {
				continue
			}
			v, ok := sc.Lookup(name).(*types.Var)
			if !ok || v.Pos() >= pos {
				continue
			}
			t := g.sc.Fresh("uv_"+name, g.sortOf(v.Type()))
			g.sc.Assume(g.typeInv(t.S, v.Type()))
			fr.params[name] = Binding{t, goTy(v.Type())}
			fmt.Fprintf(os.Stderr, "NOTE %s: enclosing variable %s is not captured by the function literal; its contract reads it as an unconstrained value\n", fn.String(), name)
		}
	}
}

var identRe = regexp.MustCompile(`[A-Za-z_][A-Za-z0-9_]*`)

// contractIdents returns the identifiers that occur in the text of a contract block.
func contractIdents(fc *FuncContract) map[string]bool {
	data, err := os.ReadFile(fc.File)
	if err != nil {
		return nil
	}
	lines := strings.Split(string(data), "\n")
	out := map[string]bool{}
	for i := fc.Line - 1; i >= 0 && i < len(lines); i++ {
		l := strings.TrimSpace(lines[i])
		if !strings.HasPrefix(l, "//@") || (i > fc.Line-1 && strings.HasPrefix(l, "//@ ") && !strings.HasPrefix(l, "//@  ")) {
			break
		}
		if i == fc.Line-1 {
			continue // the header names the receiver and the parameters
		}
		for _, id := range identRe.FindAllString(l, -1) {
			out[id] = true
		}
	}
	return out
}

func (fr *Frame) resultNames() []string {
	fn := fr.fn
	res := fn.Signature.Results()
	var names []string
	for i := 0; i < res.Len(); i++ {
		n := res.At(i).Name()
		if fr.contract != nil && i < len(fr.contract.ResultNames) && fr.contract.ResultNames[i] != "" {
			n = fr.contract.ResultNames[i]
		}
		if n == "" || n == "_" {
			n = fmt.Sprintf("r%d", i)
		}
		names = append(names, n)
	}
	return names
}

// VerifyFunction generates all obligations for the function with the given key.
func (g *Gen) VerifyFunction(fn *ssa.Function) (err error) {
	defer func() {
		if r := recover(); r != nil {
			if u, ok := r.(unsupported); ok {
				err = fmt.Errorf("%s", u.msg)
				return
			}
			panic(r)
		}
	}()
	if tps := fn.Signature.RecvTypeParams(); tps != nil {
		for i := 0; i < tps.Len(); i++ {
			g.tparamTypes[tps.At(i).Obj().Name()] = tps.At(i)
		}
	}
	if tps := fn.Signature.TypeParams(); tps != nil {
		for i := 0; i < tps.Len(); i++ {
			g.tparamTypes[tps.At(i).Obj().Name()] = tps.At(i)
		}
	}
	fr := g.newFrame(fn, nil, "")
	fc := fr.contract
	if fc != nil && fc.SingleTx {
		g.singleTxRule(fn)
		if fc.AssumeOnly {
			return nil // only the structural rule is checked; the value contract stays assumed
		}
	}
	if fc == nil {
		g.fail("no contract for %s", funcKey(fn))
	}
	g.bindParams(fr, true)
	st := &State{heaps: map[string]Term{}}
	env := fr.baseEnv(st)
	env.old = st
	g.emitAllAxioms()
	for _, gv := range fc.Ghosts {
		ty := g.W.resolveType(fr.pkg, gv.Type, g)
		t, _ := env.tr(gv.Init)
		fr.ghosts[gv.Name] = Binding{g.sc.Define("fghost_"+gv.Name, Term{t.S, g.tySort(ty)}), ty}
	}
	for _, rq := range fc.Requires {
		g.sc.Comment("requires %s", rq.Src)
		g.sc.Assume(env.trBool(rq.E))
	}
	// a crash before the first step leaves the entry state: it must satisfy the crash invariant too
	for i, cl := range fc.Crash {
		label := cl.Label
		if label == "" {
			label = fmt.Sprint(i)
		}
		g.oblige("crash", funcKey(fn)+"/crash@entry/"+label, "true", env.trBool(cl.E), cl.Src, false)
	}
	// vacuity guard: the precondition must be satisfiable
	g.obls = append(g.obls, &Obligation{Name: funcKey(fn) + "/cover/requires", Kind: "cover", Func: g.fnName, Prefix: g.sc.Len(), Reach: "true", Goal: "true", Cover: true})
	entryBase := g.curBase
	fr.execBody(st, "true")
	// an anchored clause whose anchor is never reached would silently stop binding
	for i, a := range fc.Asserts {
		if a.Assume && len(a.Havoc) == 0 && a.SetName == "" {
			continue // an assumption that is never made only makes the proof harder
		}
		if !fr.firedAnchors[i] {
			g.fail("contract of %s: anchor %q is never reached (clause %s)", funcKey(fn), a.Anchor, a.C.Src)
		}
	}
	names := fr.resultNames()
	for ri, r := range fr.rets {
		env := fr.baseEnv(r.st)
		env.old = fr.entrySt
		if rb := r.blk; rb != nil {
			// source-level locals are in scope at a return (ghostret, ensures)
			env.resolve = func(n string, st2 *State) (Term, Ty, bool) { return fr.resolveLocalAt(n, rb, st2) }
		}
		for i, n := range names {
			env.vars[n] = Binding{r.vals[i], goTy(fn.Signature.Results().At(i).Type())}
		}
		if len(names) > 0 {
			env.vars["result"] = env.vars[names[0]]
		}
		// ghost statements executed at the return
		for _, gs := range fc.GhostRets {
			t, _ := env.tr(gs.Init)
			if sel, ok := gs.Target.(*ESel); ok {
				base, _ := env.tr(sel.X)
				key, es, _ := g.ghostField(sel.Sel)
				g.writeCell(r.st, key, es, env.ghostBase(base, sel.X, sel.Sel), t.S)
				continue
			}
			g.setGhost(r.st, gs.Name, "Nil", t.S)
		}
		for i, en := range fc.Ensures {
			label := en.Label
			if label == "" {
				label = fmt.Sprint(i)
			}
			for ci, conj := range splitConj(en.E) {
				l := label
				if ci > 0 {
					l = fmt.Sprintf("%s.%d", label, ci)
				}
				f := env.trBool(conj)
				// obligations are emitted with the full script as context
				g.obls = append(g.obls, &Obligation{Name: fmt.Sprintf("%s/post/%s@ret%d", funcKey(fn), l, ri), Kind: "post", Func: g.fnName,
					Prefix: g.sc.Len(), Reach: r.reach, Goal: f, Src: en.Src, Pos: r.pos})
			}
		}
	}
	// frame: whatever the function changes in memory that existed at its entry must be covered by its modifies
	// clauses (callers only havoc those). The clauses are replayed on a scratch copy of the entry state to collect
	// the permitted addresses per heap component.
	if os.Getenv("GOWP_NOFRAME") == "" && len(fr.rets) > 0 && g.W.calledProvedSet()[funcKey(fn)] {
		var rec []frameW
		g.frec = &rec
		scratch := fr.entrySt.clone()
		fenv := fr.baseEnv(scratch)
		fenv.old = fr.entrySt
		saveLog := g.wlog
		g.wlog = nil
		for _, loc := range fc.Modifies {
			if mentionsResult(loc, fc, fr.fn.Signature) {
				continue // reached through a result: not nameable at entry; leaving it out only makes the frame stricter
			}
			fr.havocLoc(fenv, loc, scratch)
		}
		g.wlog = saveLog
		g.frec = nil
		allowed := map[string][]string{}
		for _, w := range rec {
			allowed[w.key] = append(allowed[w.key], w.pred)
		}
		for ri, r := range fr.rets {
			var keys []string
			for k := range r.st.heaps {
				keys = append(keys, k)
			}
			sort.Strings(keys)
			for _, k := range keys {
				hx := r.st.heaps[k]
				he, ok := fr.entrySt.heaps[k]
				if !ok {
					he = g.entryHeap(k, arrayElemSort(hx.Sort))
				}
				if hx.S == he.S || strings.HasPrefix(k, "D_") {
					continue // unchanged, or the engine's own bookkeeping of deferred calls
				}
				whole := false
				for _, p := range allowed[k] {
					if p == "true" {
						whole = true
					}
				}
				if whole {
					continue
				}
				cond := "(<= (rootOid r) " + entryBase + ")"
				al := append([]string(nil), allowed[k]...)
				for _, a := range g.viewArrs {
					if a.key == k {
						al = append(al, a.pred)
					}
				}
				if len(al) > 0 {
					cond = "(and " + cond + " (not " + or(al...) + "))"
				}
				goal := fmt.Sprintf("(forall ((r Ref)) (! (=> %s (= (select %s r) (select %s r))) :pattern ((select %s r))))", cond, hx.S, he.S, hx.S)
				g.obls = append(g.obls, &Obligation{Name: fmt.Sprintf("%s/frame/%s@ret%d", funcKey(fn), strings.TrimPrefix(strings.TrimPrefix(k, "H_"), "G_"), ri), Kind: "frame", Func: g.fnName,
					Prefix: g.sc.Len(), Reach: r.reach, Goal: goal, Src: "modifies clauses cover every change to " + k, Pos: r.pos})
			}
		}
	}
	// reachability of returns (vacuity)
	if len(fr.rets) > 0 {
		var rs []string
		for _, r := range fr.rets {
			rs = append(rs, r.reach)
		}
		g.obls = append(g.obls, &Obligation{Name: funcKey(fn) + "/cover/return", Kind: "cover", Func: g.fnName, Prefix: g.sc.Len(), Reach: or(rs...), Goal: "true", Cover: true})
	}
	return nil
}

func (g *Gen) emitAllAxioms() {
	// axioms that mention no abstract function yet declared are emitted lazily by applyAbstract
}

var _ = token.NoPos

// addrShape recognises addresses of the form (Fld (Fld (Elem a k) i) j): a leaf inside a slice element.
// It returns the field indices from the outside in ("j,i").
func addrShape(addr string) (string, bool) {
	var ids []string
	cur := addr
	for strings.HasPrefix(cur, "(Fld ") {
		inner := firstArg(cur[len("(Fld "):])
		rest := strings.TrimSpace(cur[len("(Fld ")+len(inner) : len(cur)-1])
		if rest == "" || strings.ContainsAny(rest, " ()") {
			return "", false
		}
		ids = append(ids, rest)
		cur = inner
	}
	if !strings.HasPrefix(cur, "(Elem ") {
		return "", false
	}
	return strings.Join(ids, ","), true
}

// shapePred: r has the form (Fld ... (Elem _ _) ... ) with the given field indices (outside in).
func shapePred(r, shape string) string {
	var cs []string
	cur := r
	if shape != "" {
		for _, id := range strings.Split(shape, ",") {
			cs = append(cs, "((_ is Fld) "+cur+")", "(= (fid "+cur+") "+id+")")
			cur = "(fbase " + cur + ")"
		}
	}
	cs = append(cs, "((_ is Elem) "+cur+")")
	return and(cs...)
}

// rootToken strips Fld/Elem wrappers from an address term.
func rootToken(addr string) string {
	cur := addr
	for {
		switch {
		case strings.HasPrefix(cur, "(Fld "):
			cur = firstArg(cur[len("(Fld "):])
		case strings.HasPrefix(cur, "(Elem "):
			cur = firstArg(cur[len("(Elem "):])
		default:
			return cur
		}
	}
}

// innerElemArr returns the array of the (Elem arr idx) layer inside Fld wrappers.
func innerElemArr(addr string) (string, bool) {
	cur := addr
	for strings.HasPrefix(cur, "(Fld ") {
		cur = firstArg(cur[len("(Fld "):])
	}
	if strings.HasPrefix(cur, "(Elem ") {
		return firstArg(cur[len("(Elem "):]), true
	}
	return "", false
}

// inLoopAlloc recognises (Obj (+ base K)) allocated after the dry-run snapshot.
func (l *writeLog) inLoopAlloc(root string) bool {
	p := "(Obj (+ " + l.snapBase + " "
	if !strings.HasPrefix(root, p) {
		return false
	}
	k, err := strconv.Atoi(strings.TrimSuffix(root[len(p):], "))"))
	return err == nil && k > l.snapAlloc
}

// singleTxRule is a syntax-directed proof rule for "the database effects of this function are one atomic
// transaction": the function body calls walletdb.Update exactly once, performs no other walletdb operation outside
// the closure handed to it, and that closure (and the repository functions it calls) starts no transaction of its own.
// Together with the assumed atomicity of a bbolt transaction (T-DB) a crash leaves either none or all of the writes.
func (g *Gen) singleTxRule(fn *ssa.Function) {
	isWalletdb := func(c *ssa.CallCommon) (string, bool) {
		if c.IsInvoke() {
			if n, ok := types.Unalias(c.Value.Type()).(*types.Named); ok && n.Obj().Pkg() != nil && strings.HasSuffix(n.Obj().Pkg().Path(), "/walletdb") {
				return n.Obj().Name() + "." + c.Method.Name(), true
			}
			return "", false
		}
		if f, ok := c.Value.(*ssa.Function); ok && f.Pkg != nil && strings.HasSuffix(f.Pkg.Pkg.Path(), "/walletdb") {
			return f.Name(), true
		}
		return "", false
	}
	var problems []string
	updates := 0
	for _, b := range fn.Blocks {
		for _, ins := range b.Instrs {
			var cc *ssa.CallCommon
			switch x := ins.(type) {
			case *ssa.Call:
				cc = &x.Call
			case *ssa.Defer:
				cc = &x.Call
			case *ssa.Go:
				cc = &x.Call
			}
			if cc == nil {
				continue
			}
			if name, ok := isWalletdb(cc); ok {
				if name == "Update" {
					updates++
				} else {
					problems = append(problems, "database operation "+name+" outside the transaction")
				}
			}
		}
	}
	if updates != 1 {
		problems = append(problems, fmt.Sprintf("%d calls of walletdb.Update (exactly one expected)", updates))
	}
	seen := map[*ssa.Function]bool{}
	var nested func(f *ssa.Function)
	nested = func(f *ssa.Function) {
		if seen[f] || len(f.Blocks) == 0 {
			return
		}
		seen[f] = true
		for _, b := range f.Blocks {
			for _, ins := range b.Instrs {
				c, ok := ins.(ssa.CallInstruction)
				if !ok {
					continue
				}
				cc := c.Common()
				if name, ok := isWalletdb(cc); ok && (name == "Update" || name == "View" || strings.HasPrefix(name, "DB.Begin")) {
					problems = append(problems, "nested transaction "+name+" in "+f.Name())
				}
				if callee, ok := cc.Value.(*ssa.Function); ok && callee.Pkg != nil && callee.Pkg == fn.Pkg {
					nested(callee)
				}
			}
		}
	}
	for _, an := range fn.AnonFuncs {
		nested(an)
	}
	// the function's own body must not reach a second transaction through a callee of its package either
	nNested := len(problems)
	for _, b := range fn.Blocks {
		for _, ins := range b.Instrs {
			c, ok := ins.(ssa.CallInstruction)
			if !ok {
				continue
			}
			if callee, ok := c.Common().Value.(*ssa.Function); ok && callee.Pkg != nil && callee.Pkg == fn.Pkg {
				nested(callee)
				for _, an := range callee.AnonFuncs {
					nested(an)
				}
			}
		}
	}
	for i := nNested; i < len(problems); i++ {
		problems[i] = "outside the transaction: " + problems[i]
	}
	goal := "true"
	src := "single_transaction"
	if len(problems) > 0 {
		goal = "false"
		src += ": " + strings.Join(problems, "; ")
	}
	g.obls = append(g.obls, &Obligation{Name: funcKey(fn) + "/tx/single", Kind: "structure", Func: g.fnName, Prefix: g.sc.Len(), Reach: "true", Goal: goal, Src: src})
}

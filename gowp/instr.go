package main

import (
	"fmt"
	"go/token"
	"go/types"
	"os"
	"strings"

	"golang.org/x/tools/go/ssa"
)

// writeCell stores v at address a in heap key and records the write for loop analysis.
func (g *Gen) writeCell(st *State, key, elemSort, a, v string) {
	h := g.heap(st, key, elemSort)
	g.setHeap(st, key, Term{sto(h.S, a, v), h.Sort})
	if key == "H_Int_uint8" && !g.noBytesFrame {
		g.bytesFrame(st.heaps[key].S, h.S, "(or (not ((_ is Elem) "+a+")) (not (= (sarr s) (ebase "+a+"))))")
	}
	if g.wlog != nil {
		g.wlog.add(g, key, elemSort, a, "")
	}
	if g.frec != nil {
		*g.frec = append(*g.frec, frameW{key, "(= r " + a + ")"})
	}
}

func (g *Gen) logWholeWrite(key, elemSort, pattern string) {
	if g.wlog != nil {
		g.wlog.add(g, key, elemSort, "", pattern)
	}
}

type mapHeapInfo struct {
	domKey, valKey, cardKey string
	domSort, valSort        string
	keySort, elemSort       string
}

func (g *Gen) mapHeaps(m *types.Map) mapHeapInfo {
	ks := g.sortOf(m.Key())
	vs := g.sortOf(m.Elem())
	id := sortKey(ks) + "__" + sortKey(vs)
	return mapHeapInfo{
		domKey: "Mdom_" + id, valKey: "Mval_" + id, cardKey: "Mcard",
		domSort: arraySort(ks, SBool), valSort: arraySort(ks, vs), keySort: ks, elemSort: vs,
	}
}

func (fr *Frame) execInstr(ins ssa.Instruction, c *blockCtx) {
	g := fr.g
	switch ins := ins.(type) {
	case *ssa.DebugRef:
		return
	case *ssa.Alloc:
		obj := g.newObj()
		t := fr.define(ins, Term{obj, SRef})
		g.freshNames[t.S] = true
		g.zeroInit(c.st, t.S, ins.Type().Underlying().(*types.Pointer).Elem())
		g.ghostInit(c.st, t.S, ins.Type().Underlying().(*types.Pointer).Elem())
	case *ssa.FieldAddr:
		x := fr.val(ins.X)
		fr.safety("nil", c.reach, not(eq(x.S, "Nil")), ins)
		fr.define(ins, Term{fmt.Sprintf("(Fld %s %d)", x.S, ins.Field), SRef})
	case *ssa.Field:
		x := fr.val(ins.X)
		s := g.sortOf(ins.X.Type())
		ft := ins.X.Type().Underlying().(*types.Struct).Field(ins.Field).Type()
		fr.define(ins, Term{fmt.Sprintf("(%s_f%d %s)", s, ins.Field, x.S), g.sortOf(ft)})
	case *ssa.IndexAddr:
		x := fr.val(ins.X)
		i := fr.val(ins.Index)
		switch xt := ins.X.Type().Underlying().(type) {
		case *types.Slice:
			fr.safety("index", c.reach, fmt.Sprintf("(and (<= 0 %s) (< %s (slen %s)))", i.S, i.S, x.S), ins)
			fr.define(ins, Term{fmt.Sprintf("(Elem (sarr %s) (+ (soff %s) %s))", x.S, x.S, i.S), SRef})
		case *types.Pointer:
			arr := xt.Elem().Underlying().(*types.Array)
			fr.safety("nil", c.reach, not(eq(x.S, "Nil")), ins)
			fr.safety("index", c.reach, fmt.Sprintf("(and (<= 0 %s) (< %s %d))", i.S, i.S, arr.Len()), ins)
			fr.define(ins, Term{fmt.Sprintf("(Elem %s %s)", x.S, i.S), SRef})
		default:
			g.fail("IndexAddr on %s", ins.X.Type())
		}
	case *ssa.Index:
		x := fr.val(ins.X)
		i := fr.val(ins.Index)
		switch xt := ins.X.Type().Underlying().(type) {
		case *types.Array:
			fr.safety("index", c.reach, fmt.Sprintf("(and (<= 0 %s) (< %s %d))", i.S, i.S, xt.Len()), ins)
			fr.define(ins, Term{sel(x.S, i.S), g.sortOf(xt.Elem())})
		case *types.Basic: // string
			g.sc.DeclareOnce("strat", "(declare-fun strat (Str Int) Int)")
			fr.safety("index", c.reach, fmt.Sprintf("(and (<= 0 %s) (< %s (strlen %s)))", i.S, i.S, x.S), ins)
			t := fr.define(ins, Term{app("strat", x.S, i.S), SInt})
			g.sc.Assume(g.typeInv(t.S, types.Typ[types.Byte]))
		default:
			g.fail("Index on %s", ins.X.Type())
		}
	case *ssa.UnOp:
		fr.execUnOp(ins, c)
	case *ssa.Store:
		fr.execStore(ins.Addr, ins.Val, c, ins)
	case *ssa.BinOp:
		fr.execBinOp(ins, c)
	case *ssa.Convert:
		fr.execConvert(ins, c)
	case *ssa.ChangeType:
		fr.define(ins, fr.val(ins.X))
	case *ssa.MultiConvert:
		g.fail("MultiConvert")
	case *ssa.ChangeInterface:
		fr.define(ins, fr.val(ins.X))
	case *ssa.MakeInterface:
		x := fr.val(ins.X)
		tag := g.tagOf(ins.X.Type())
		if x.Sort == SRef {
			fr.define(ins, Term{fmt.Sprintf("(mkIface %d %s)", tag, x.S), SIface})
		} else {
			// box the value; boxes of equal values compare equal through the boxOf function
			box := g.boxOf(x, ins.X.Type(), c.st)
			fr.define(ins, Term{fmt.Sprintf("(mkIface %d %s)", tag, box), SIface})
		}
	case *ssa.TypeAssert:
		fr.execTypeAssert(ins, c)
	case *ssa.Extract:
		tup := fr.tuples[ins.Tuple]
		if tup == nil {
			g.fail("extract from unknown tuple %s", ins.Tuple.Name())
		}
		fr.vals[ins] = tup[ins.Index]
	case *ssa.Phi:
		return
	case *ssa.Slice:
		fr.execSlice(ins, c)
	case *ssa.MakeSlice:
		n := fr.val(ins.Len)
		cp := fr.val(ins.Cap)
		obj := g.constFor("arr", Term{g.newObj(), SRef})
		g.freshNames[obj.S] = true
		fr.safety("makeslice", c.reach, fmt.Sprintf("(and (<= 0 %s) (<= %s %s))", n.S, n.S, cp.S), ins)
		fr.define(ins, Term{fmt.Sprintf("(mkSlice %s 0 %s %s)", obj.S, n.S, cp.S), SSlice})
		et := ins.Type().Underlying().(*types.Slice).Elem()
		g.assumeZeroElems(c.st, obj.S, et)
	case *ssa.MakeMap:
		obj := g.newObj()
		t := fr.define(ins, Term{obj, SRef})
		mt := ins.Type().Underlying().(*types.Map)
		mv := g.mapHeaps(mt)
		g.writeCell(c.st, mv.domKey, mv.domSort, t.S, "((as const "+mv.domSort+") false)")
		g.writeCell(c.st, mv.cardKey, SInt, t.S, "0")
	case *ssa.MakeChan:
		obj := g.newObj()
		t := fr.define(ins, Term{obj, SRef})
		sz := fr.val(ins.Size)
		g.setGhost(c.st, "$chcap", t.S, sz.S)
		g.setGhost(c.st, "$chlen", t.S, "0")
		g.setGhost(c.st, "$chclosed", t.S, "false")
	case *ssa.MakeClosure:
		obj := g.newObj()
		t := fr.define(ins, Term{obj, SRef})
		var bs []Term
		for _, b := range ins.Bindings {
			bs = append(bs, fr.val(b))
		}
		g.closures[t.S] = &closureVal{fn: ins.Fn.(*ssa.Function), bindings: bs}
		fr.closureOf[ins] = g.closures[t.S]
	case *ssa.Lookup:
		fr.execLookup(ins, c)
	case *ssa.MapUpdate:
		fr.execMapUpdate(ins, c)
	case *ssa.Range:
		fr.execRange(ins, c)
	case *ssa.Next:
		fr.execNext(ins, c)
	case *ssa.Call:
		res := fr.execCall(ins, &ins.Call, c)
		fr.bindCallResults(ins, res)
		if _, isBuiltin := ins.Call.Value.(*ssa.Builtin); !isBuiltin {
			for _, a := range ins.Call.Args {
				fr.syncArrView(a, c.st) // a callee may have written through a slice view of a local array
			}
		}
	case *ssa.Defer:
		fr.execDefer(ins, c)
	case *ssa.RunDefers:
		fr.execRunDefers(c)
	case *ssa.Go:
		fr.execGo(ins, c)
	case *ssa.Send:
		fr.execSend(ins, c)
	case *ssa.Select:
		fr.execSelect(ins, c)
	case *ssa.If:
		cond := fr.val(ins.Cond)
		fr.edgeCond[fr.curBlock] = []string{cond.S, not(cond.S)}
	case *ssa.Jump:
		fr.edgeCond[fr.curBlock] = []string{"true"}
	case *ssa.Return:
		var vs []Term
		for _, r := range ins.Results {
			vs = append(vs, fr.val(r))
		}
		rp := fr.g.W.fset.Position(ins.Pos())
		fr.rets = append(fr.rets, retPoint{c.reach, c.st.clone(), vs, fmt.Sprintf("%s:%d", shortPath(rp.Filename), rp.Line), fr.curBlock})
		fr.edgeCond[fr.curBlock] = nil
	case *ssa.Panic:
		fr.execPanic(ins, c)
		fr.edgeCond[fr.curBlock] = nil
	case *ssa.SliceToArrayPointer:
		g.fail("SliceToArrayPointer")
	default:
		g.fail("unsupported instruction %T: %s", ins, ins)
	}
}

func (fr *Frame) bindCallResults(ins *ssa.Call, res []Term) {
	sig := ins.Call.Signature()
	switch sig.Results().Len() {
	case 0:
	case 1:
		if len(res) != 1 {
			fr.g.fail("call %s returned %d results", ins, len(res))
		}
		fr.vals[ins] = res[0]
	default:
		fr.tuples[ins] = res
	}
}

// boxOf returns the box reference for a non-reference value stored in an interface.
func (g *Gen) boxOf(x Term, t types.Type, st *State) string {
	fn := "box_" + sortKey(x.Sort)
	g.sc.DeclareOnce(fn, fmt.Sprintf("(declare-fun %s (%s) Ref)\n(declare-fun un%s (Ref) %s)\n(assert (forall ((v %s)) (! (and (= (un%s (%s v)) v) (= (rootOid (%s v)) (- 2))) :pattern ((%s v)))))",
		fn, x.Sort, fn, x.Sort, x.Sort, fn, fn, fn, fn))
	return app(fn, x.S)
}

func (g *Gen) unbox(r string, sort string) string {
	fn := "box_" + sortKey(sort)
	g.sc.DeclareOnce(fn, fmt.Sprintf("(declare-fun %s (%s) Ref)\n(declare-fun un%s (Ref) %s)\n(assert (forall ((v %s)) (! (and (= (un%s (%s v)) v) (= (rootOid (%s v)) (- 2))) :pattern ((%s v)))))",
		fn, sort, fn, sort, sort, fn, fn, fn, fn))
	return app("un"+fn, r)
}

// constFor introduces a declared constant equal to t (usable inside quantifier patterns).
func (g *Gen) constFor(prefix string, t Term) Term {
	c := g.sc.Fresh(prefix, t.Sort)
	g.sc.Assume(eq(c.S, t.S))
	return c
}

// assumeZeroElems states that all elements of the fresh backing array arr are zero.
func (g *Gen) assumeZeroElems(st *State, arr string, et types.Type) {
	if stt, ok := isStruct(et); ok {
		// per leaf field
		var walk func(addr string, t types.Type)
		walk = func(addr string, t types.Type) {
			if s2, ok := isStruct(t); ok {
				for i := 0; i < s2.NumFields(); i++ {
					walk(fmt.Sprintf("(Fld %s %d)", addr, i), s2.Field(i).Type())
				}
				return
			}
			s := g.sortOf(t)
			h := g.heap(st, g.heapKeyT(t), s)
			g.sc.Assume(fmt.Sprintf("(forall ((k Int)) (! (= (select %s %s) %s) :pattern ((Elem %s k))))", h.S, strings.ReplaceAll(addr, "@K", "k"), g.zero(t).S, arr))
		}
		_ = stt
		walk("(Elem "+arr+" @K)", et)
		return
	}
	if _, ok := et.Underlying().(*types.Array); ok {
		if _, leaf := isLeafArray(et); !leaf {
			return
		}
	}
	s := g.sortOf(et)
	h := g.heap(st, g.heapKeyT(et), s)
	g.sc.Assume(fmt.Sprintf("(forall ((k Int)) (! (= (select %s (Elem %s k)) %s) :pattern ((Elem %s k))))", h.S, arr, g.zero(et).S, arr))
}

func (g *Gen) setGhost(st *State, name, addr, v string) {
	key, es, _ := g.ghostField(name)
	g.writeCell(st, key, es, addr, v)
}

func (g *Gen) getGhost(st *State, name, addr string) Term {
	key, es, _ := g.ghostField(name)
	h := g.heap(st, key, es)
	return Term{sel(h.S, addr), es}
}

// ---------- loads and stores ----------

// leafArrayElem detects an address that is an element of a leaf array cell: returns array address, index.
func (fr *Frame) leafArrayElem(addr ssa.Value) (arrAddr Term, idx Term, at *types.Array, ok bool) {
	ia, isIA := addr.(*ssa.IndexAddr)
	if !isIA {
		return
	}
	p, isP := ia.X.Type().Underlying().(*types.Pointer)
	if !isP {
		return
	}
	a, leaf := isLeafArray(p.Elem())
	if !leaf {
		return
	}
	return fr.val(ia.X), fr.val(ia.Index), a, true
}

func (fr *Frame) execUnOp(ins *ssa.UnOp, c *blockCtx) {
	g := fr.g
	switch ins.Op {
	case token.MUL: // load
		if arrA, idx, at, ok := fr.leafArrayElem(ins.X); ok {
			whole := g.loadLeaf(c.st, arrA.S, at)
			t := fr.define(ins, Term{sel(whole.S, idx.S), g.sortOf(at.Elem())})
			g.sc.Assume(g.typeInv(t.S, at.Elem()))
			return
		}
		a := fr.val(ins.X)
		fr.safety("nil", c.reach, not(eq(a.S, "Nil")), ins)
		et := ins.X.Type().Underlying().(*types.Pointer).Elem()
		t := fr.define(ins, g.load(c.st, a.S, et))
		g.sc.Assume(g.typeInv(t.S, et))
		if gl, ok := ins.X.(*ssa.Global); ok && t.Sort == SIface && types.Identical(et, types.Universe.Lookup("error").Type()) {
			// package-level error sentinels are initialised to distinct non-nil values and never reassigned
			g.sc.Assume(not(eq(t.S, "nilIface")))
			g.usedAssumed["sentinel error "+gl.Pkg.Pkg.Path()+"."+gl.Name()+" is non-nil"] = true
		}
	case token.NOT:
		fr.define(ins, Term{not(fr.val(ins.X).S), SBool})
	case token.SUB:
		x := fr.val(ins.X)
		if x.Sort == SReal {
			fr.define(ins, Term{"(- " + x.S + ")", SReal})
			return
		}
		fr.define(ins, Term{wrapInt("(- "+x.S+")", basicOf(ins.Type())), SInt})
	case token.XOR:
		x := fr.val(ins.X)
		b := basicOf(ins.Type())
		_, signed := intBits(b)
		if signed {
			fr.define(ins, Term{"(- (- " + x.S + ") 1)", SInt})
		} else {
			_, hi, _ := intRange(b)
			fr.define(ins, Term{"(- " + hi + " " + x.S + ")", SInt})
		}
	case token.ARROW:
		fr.execRecv(ins, c)
	default:
		g.fail("unop %s", ins.Op)
	}
}

func (fr *Frame) execStore(addr ssa.Value, val ssa.Value, c *blockCtx, ins ssa.Instruction) {
	g := fr.g
	v := fr.val(val)
	if arrA, idx, at, ok := fr.leafArrayElem(addr); ok {
		whole := g.loadLeaf(c.st, arrA.S, at)
		s := g.sortOf(at)
		g.writeCell(c.st, g.heapKeyT(at), s, arrA.S, sto(whole.S, idx.S, v.S))
		return
	}
	a := fr.val(addr)
	fr.safety("nil", c.reach, not(eq(a.S, "Nil")), ins)
	et := addr.Type().Underlying().(*types.Pointer).Elem()
	if _, isFn := et.Underlying().(*types.Signature); isFn {
		// a function-typed variable: remember which closure it holds (a variable assigned two different
		// closures is not resolved)
		if g.cellClosure == nil {
			g.cellClosure = map[string]*closureVal{}
		}
		if os.Getenv("GOWP_DEBUG") != "" {
			fmt.Fprintf(os.Stderr, "store fn cell %s <- %s known=%v\n", a.S, v.S, g.closures[v.S] != nil)
		}
		cl, ok := g.closures[v.S]
		if f, isF := val.(*ssa.Function); isF && !ok {
			cl, ok = &closureVal{fn: f}, true // a function literal without free variables
		}
		if ok {
			if old, seen := g.cellClosure[a.S]; seen && (old == nil || old.fn != cl.fn) {
				g.cellClosure[a.S] = nil
			} else {
				g.cellClosure[a.S] = cl
			}
		} else {
			g.cellClosure[a.S] = nil
		}
	}
	g.store(c.st, a.S, et, v.S)
}

// ---------- arithmetic ----------

func (fr *Frame) execBinOp(ins *ssa.BinOp, c *blockCtx) {
	g := fr.g
	x := fr.val(ins.X)
	y := fr.val(ins.Y)
	xt := ins.X.Type()
	switch ins.Op {
	case token.EQL, token.NEQ:
		var f string
		if x.Sort == SSlice {
			// comparison with nil only
			other := y
			if _, isConst := ins.X.(*ssa.Const); isConst {
				other = x
				x = y
			}
			_ = other
			f = "(= (sarr " + x.S + ") Nil)"
		} else {
			f = eq(x.S, y.S)
		}
		if ins.Op == token.NEQ {
			f = not(f)
		}
		fr.define(ins, Term{f, SBool})
		return
	case token.LSS, token.LEQ, token.GTR, token.GEQ:
		op := map[token.Token]string{token.LSS: "<", token.LEQ: "<=", token.GTR: ">", token.GEQ: ">="}[ins.Op]
		if x.Sort == SStr {
			g.sc.DeclareOnce("strlt", "(declare-fun strlt (Str Str) Bool)")
			g.fail("string ordering")
		}
		fr.define(ins, Term{"(" + op + " " + x.S + " " + y.S + ")", SBool})
		return
	case token.LAND, token.AND:
		if x.Sort == SBool {
			fr.define(ins, Term{and(x.S, y.S), SBool})
			return
		}
	case token.LOR, token.OR:
		if x.Sort == SBool {
			fr.define(ins, Term{or(x.S, y.S), SBool})
			return
		}
	}
	if x.Sort == SStr && ins.Op == token.ADD {
		t := fr.define(ins, Term{app("strcat", x.S, y.S), SStr})
		g.sc.Assume(fmt.Sprintf("(= (strlen %s) (+ (strlen %s) (strlen %s)))", t.S, x.S, y.S))
		return
	}
	if x.Sort == SReal {
		op := map[token.Token]string{token.ADD: "+", token.SUB: "-", token.MUL: "*", token.QUO: "/"}[ins.Op]
		if op == "" {
			g.fail("float op %s", ins.Op)
		}
		fr.define(ins, Term{"(" + op + " " + x.S + " " + y.S + ")", SReal})
		return
	}
	b := basicOf(ins.Type())
	if b == nil || b.Info()&types.IsInteger == 0 {
		g.fail("binop %s on %s", ins.Op, xt)
	}
	bits, signed := intBits(b)
	var raw string
	exact := false // result needs no wrap
	switch ins.Op {
	case token.ADD:
		raw = "(+ " + x.S + " " + y.S + ")"
	case token.SUB:
		raw = "(- " + x.S + " " + y.S + ")"
	case token.MUL:
		raw = "(* " + x.S + " " + y.S + ")"
	case token.QUO:
		fr.safety("div", c.reach, not(eq(y.S, "0")), ins)
		if !signed {
			raw = "(div " + x.S + " " + y.S + ")"
			exact = true
		} else {
			// truncated division
			raw = fmt.Sprintf("(ite (>= %s 0) (div %s %s) (- (div (- %s) %s)))", x.S, x.S, y.S, x.S, y.S)
			raw = fmt.Sprintf("(ite (> %s 0) %s (ite (>= %s 0) (- (div %s (- %s))) (div (- %s) (- %s))))", y.S, raw, x.S, x.S, y.S, x.S, y.S)
		}
	case token.REM:
		fr.safety("div", c.reach, not(eq(y.S, "0")), ins)
		if !signed {
			raw = "(mod " + x.S + " " + y.S + ")"
			exact = true
		} else {
			raw = fmt.Sprintf("(ite (>= %s 0) (mod %s (ite (> %s 0) %s (- %s))) (- (mod (- %s) (ite (> %s 0) %s (- %s)))))", x.S, x.S, y.S, y.S, y.S, x.S, y.S, y.S, y.S)
			exact = true
		}
	case token.SHL:
		if cst, ok := ins.Y.(*ssa.Const); ok {
			n := cst.Int64()
			raw = fmt.Sprintf("(* %s %s)", x.S, pow2str(n))
		} else {
			raw = app("shl", x.S, y.S)
		}
	case token.SHR:
		if cst, ok := ins.Y.(*ssa.Const); ok {
			n := cst.Int64()
			raw = fmt.Sprintf("(div %s %s)", x.S, pow2str(n))
			exact = true
		} else {
			raw = app("shr", x.S, y.S)
			g.sc.Assume(fmt.Sprintf("(=> (>= %s 0) (and (>= %s 0) (<= %s %s)))", x.S, raw, raw, x.S))
		}
	case token.AND:
		if cst, ok := ins.Y.(*ssa.Const); ok && isLowMask(cst.Int64()) && !signed {
			raw = fmt.Sprintf("(mod %s %d)", x.S, cst.Int64()+1)
			exact = true
		} else {
			raw = app("bitand", x.S, y.S)
			g.sc.Assume(fmt.Sprintf("(=> (and (>= %s 0) (>= %s 0)) (and (>= %s 0) (<= %s %s) (<= %s %s)))", x.S, y.S, raw, raw, x.S, raw, y.S))
		}
	case token.OR:
		raw = app("bitor", x.S, y.S)
	case token.XOR:
		raw = app("bitxor", x.S, y.S)
	case token.AND_NOT:
		raw = app("bitand", x.S, "(- (- "+y.S+") 1)")
	default:
		g.fail("binop %s", ins.Op)
	}
	if exact {
		fr.define(ins, Term{raw, SInt})
		return
	}
	if signed && bits == 64 && (ins.Op == token.ADD || ins.Op == token.SUB || ins.Op == token.MUL) {
		// 64-bit signed arithmetic: mathematical result with a no-overflow side obligation
		t := fr.define(ins, Term{raw, SInt})
		fr.safety("overflow", c.reach, g.typeInv(t.S, ins.Type()), ins)
		return
	}
	wrapped := wrapInt(raw, b)
	if ins.Op == token.ADD || ins.Op == token.SUB {
		wrapped = wrapNear(raw, b) // both operands are in range: at most one period off
	}
	t := fr.define(ins, Term{wrapped, SInt})
	if ins.Op == token.OR || ins.Op == token.XOR || ins.Op == token.SHL && raw[1] == 's' {
		g.sc.Assume(g.typeInv(t.S, ins.Type()))
	}
}

func isLowMask(v int64) bool { return v > 0 && (v&(v+1)) == 0 }

func pow2str(n int64) string {
	s := "1"
	v := []byte{1}
	_ = v
	// big power of two as decimal string
	digits := []int{1}
	for i := int64(0); i < n; i++ {
		carry := 0
		for j := range digits {
			d := digits[j]*2 + carry
			digits[j] = d % 10
			carry = d / 10
		}
		if carry > 0 {
			digits = append(digits, carry)
		}
	}
	var b strings.Builder
	for i := len(digits) - 1; i >= 0; i-- {
		b.WriteByte(byte('0' + digits[i]))
	}
	s = b.String()
	return s
}

func (fr *Frame) execConvert(ins *ssa.Convert, c *blockCtx) {
	g := fr.g
	x := fr.val(ins.X)
	from := ins.X.Type().Underlying()
	to := ins.Type().Underlying()
	fb, _ := from.(*types.Basic)
	tb, _ := to.(*types.Basic)
	switch {
	case fb != nil && tb != nil && fb.Info()&types.IsInteger != 0 && tb.Info()&types.IsInteger != 0:
		// widening conversions need no wrap
		flo, fhi, _ := intRange(fb)
		tlo, thi, _ := intRange(tb)
		if cmpDec(flo, tlo) >= 0 && cmpDec(fhi, thi) <= 0 {
			fr.define(ins, x)
			return
		}
		if fbits, _ := intBits(fb); func() bool { tbits, _ := intBits(tb); return fbits <= tbits }() {
			fr.define(ins, Term{wrapNear(x.S, tb), SInt}) // same or smaller width: at most one period off
			return
		}
		fr.define(ins, Term{wrapInt(x.S, tb), SInt})
	case fb != nil && tb != nil && fb.Info()&types.IsInteger != 0 && tb.Info()&types.IsFloat != 0:
		fr.define(ins, Term{"(to_real " + x.S + ")", SReal})
	case fb != nil && tb != nil && fb.Info()&types.IsFloat != 0 && tb.Info()&types.IsFloat != 0:
		fr.define(ins, x)
	case fb != nil && tb != nil && fb.Info()&types.IsFloat != 0 && tb.Info()&types.IsInteger != 0:
		g.fail("float to int conversion")
	case tb != nil && tb.Info()&types.IsString != 0:
		// []byte -> string, or int -> string
		if x.Sort == SSlice {
			g.declSort("Bytes")
			g.declBytesOf()
			g.sc.DeclareOnce("strOfBytes", "(declare-fun strOfBytes (Bytes) Str)\n(declare-fun bytesOfStr (Str) Bytes)\n(assert (forall ((b Bytes)) (! (= (bytesOfStr (strOfBytes b)) b) :pattern ((strOfBytes b)))))\n(assert (forall ((s Str)) (! (= (strOfBytes (bytesOfStr s)) s) :pattern ((bytesOfStr s)))))")
			h := g.heap(c.st, g.heapKeyT(types.Typ[types.Uint8]), SInt)
			t := fr.define(ins, Term{app("strOfBytes", app("bytesOf", h.S, x.S)), SStr})
			g.sc.Assume(fmt.Sprintf("(= (strlen %s) (slen %s))", t.S, x.S))
			return
		}
		if x.Sort == SStr {
			fr.define(ins, x)
			return
		}
		g.fail("conversion to string from %s", from)
	case fb != nil && fb.Info()&types.IsString != 0:
		// string -> []byte
		if _, ok := to.(*types.Slice); ok {
			g.declSort("Bytes")
			g.declBytesOf()
			g.sc.DeclareOnce("strOfBytes", "(declare-fun strOfBytes (Bytes) Str)\n(declare-fun bytesOfStr (Str) Bytes)\n(assert (forall ((b Bytes)) (! (= (bytesOfStr (strOfBytes b)) b) :pattern ((strOfBytes b)))))\n(assert (forall ((s Str)) (! (= (strOfBytes (bytesOfStr s)) s) :pattern ((bytesOfStr s)))))")
			obj := g.newObj()
			t := fr.define(ins, Term{fmt.Sprintf("(mkSlice %s 0 (strlen %s) (strlen %s))", obj, x.S, x.S), SSlice})
			h := g.heap(c.st, g.heapKeyT(types.Typ[types.Uint8]), SInt)
			g.sc.Assume(eq(app("bytesOf", h.S, t.S), app("bytesOfStr", x.S)))
			return
		}
		g.fail("conversion from string to %s", to)
	default:
		if g.sortOf(ins.X.Type()) == g.sortOf(ins.Type()) {
			fr.define(ins, x)
			return
		}
		g.fail("conversion %s -> %s", from, to)
	}
}

// cmpDec compares two decimal integer strings.
func cmpDec(a, b string) int {
	na, nb := strings.HasPrefix(a, "-"), strings.HasPrefix(b, "-")
	if na && !nb {
		return -1
	}
	if !na && nb {
		return 1
	}
	if na {
		return -cmpDec(a[1:], b[1:])
	}
	if len(a) != len(b) {
		if len(a) < len(b) {
			return -1
		}
		return 1
	}
	return strings.Compare(a, b)
}

func (fr *Frame) execTypeAssert(ins *ssa.TypeAssert, c *blockCtx) {
	g := fr.g
	x := fr.val(ins.X)
	var ok string
	var val Term
	if _, isIface := ins.AssertedType.Underlying().(*types.Interface); isIface {
		// assertion to an interface type: succeeds iff the dynamic type implements it
		okc := g.sc.Fresh("implements", SBool)
		g.sc.Assume(implies(eq(x.S, "nilIface"), not(okc.S)))
		// dynamic types known to implement it always succeed when statically implied
		if types.AssignableTo(ins.X.Type(), ins.AssertedType) {
			g.sc.Assume(implies(not(eq(x.S, "nilIface")), okc.S))
		}
		ok = okc.S
		val = x
	} else {
		tag := g.tagOf(ins.AssertedType)
		ok = fmt.Sprintf("(= (itag %s) %d)", x.S, tag)
		s := g.sortOf(ins.AssertedType)
		if s == SRef {
			val = Term{"(iref " + x.S + ")", SRef}
		} else {
			val = Term{g.unbox("(iref "+x.S+")", s), s}
		}
	}
	if ins.CommaOk {
		okT := g.sc.Define(ins.Name()+"_ok", Term{ok, SBool})
		z := g.zero(ins.AssertedType)
		v := g.sc.Define(ins.Name()+"_v", Term{ite(okT.S, val.S, z.S), val.Sort})
		fr.tuples[ins] = []Term{v, okT}
		return
	}
	fr.safety("typeassert", c.reach, ok, ins)
	t := fr.define(ins, val)
	g.sc.Assume(implies(c.reach, ok))
	g.sc.Assume(g.typeInv(t.S, ins.AssertedType))
}

func (fr *Frame) execSlice(ins *ssa.Slice, c *blockCtx) {
	g := fr.g
	x := fr.val(ins.X)
	get := func(v ssa.Value, def string) string {
		if v == nil {
			return def
		}
		return fr.val(v).S
	}
	switch xt := ins.X.Type().Underlying().(type) {
	case *types.Slice:
		lo := get(ins.Low, "0")
		hi := get(ins.High, "(slen "+x.S+")")
		mx := get(ins.Max, "(scap "+x.S+")")
		fr.safety("slice", c.reach, fmt.Sprintf("(and (<= 0 %s) (<= %s %s) (<= %s %s) (<= %s (scap %s)))", lo, lo, hi, hi, mx, mx, x.S), ins)
		fr.define(ins, Term{fmt.Sprintf("(mkSlice (sarr %s) (+ (soff %s) %s) (- %s %s) (- %s %s))", x.S, x.S, lo, hi, lo, mx, lo), SSlice})
	case *types.Basic: // string
		lo := get(ins.Low, "0")
		hi := get(ins.High, "(strlen "+x.S+")")
		fr.safety("slice", c.reach, fmt.Sprintf("(and (<= 0 %s) (<= %s %s) (<= %s (strlen %s)))", lo, lo, hi, hi, x.S), ins)
		g.sc.DeclareOnce("substr", "(declare-fun substr (Str Int Int) Str)")
		t := fr.define(ins, Term{app("substr", x.S, lo, hi), SStr})
		g.sc.Assume(fmt.Sprintf("(= (strlen %s) (- %s %s))", t.S, hi, lo))
	case *types.Pointer:
		arr := xt.Elem().Underlying().(*types.Array)
		n := fmt.Sprint(arr.Len())
		lo := get(ins.Low, "0")
		hi := get(ins.High, n)
		mx := get(ins.Max, n)
		fr.safety("nil", c.reach, not(eq(x.S, "Nil")), ins)
		fr.safety("slice", c.reach, fmt.Sprintf("(and (<= 0 %s) (<= %s %s) (<= %s %s) (<= %s %s))", lo, lo, hi, hi, mx, mx, n), ins)
		if _, leaf := isLeafArray(xt.Elem()); leaf {
			// materialise the element view of the whole-array cell
			if arr.Len() > 128 {
				g.fail("slice of large leaf array")
			}
			es := g.sortOf(arr.Elem())
			wk, ek := g.heapKeyT(xt.Elem()), g.heapKeyT(arr.Elem())
			if rec, ok := g.arrSync[x.S]; ok && rec[0] == g.heap(c.st, wk, g.sortOf(xt.Elem())).S && rec[1] == g.heap(c.st, ek, es).S {
				// element view and whole-array cell are still in sync: nothing to materialise
			} else {
				whole := g.loadLeaf(c.st, x.S, xt.Elem())
				w := g.sc.Define("arrview", whole)
				// the element view is a second representation of the same memory: materialising it is not a write
				// (neither for loop write sets nor for the frame)
				saveLog, saveRec := g.wlog, g.frec
				g.wlog, g.frec = nil, nil
				// one frame fact for the abstract byte contents instead of one per cell
				before := g.heap(c.st, ek, es).S
				g.noBytesFrame = true
				for k := int64(0); k < arr.Len(); k++ {
					g.writeCell(c.st, ek, es, fmt.Sprintf("(Elem %s %d)", x.S, k), sel(w.S, fmt.Sprint(k)))
				}
				g.noBytesFrame = false
				if ek == "H_Int_uint8" {
					g.bytesFrame(g.heap(c.st, ek, es).S, before, "(not (= (sarr s) "+x.S+"))")
				}
				g.wlog, g.frec = saveLog, saveRec
				if g.dry == 0 {
					g.viewArrs = append(g.viewArrs, frameW{ek, "(and ((_ is Elem) r) (= (ebase r) " + x.S + "))"})
				}
				g.arrSync[x.S] = [2]string{g.heap(c.st, wk, g.sortOf(xt.Elem())).S, g.heap(c.st, ek, es).S}
			}
			fr.arrViews[ins] = arrView{arr: x, t: xt.Elem()}
			// abstract content of the full view of a named byte array with a declared bytesOf<Type> function:
			// bytes(a[:]) is that function of the array value
			if eb, ok := arr.Elem().Underlying().(*types.Basic); ok && eb.Kind() == types.Uint8 && lo == "0" && hi == n {
				if nt, ok := types.Unalias(xt.Elem()).(*types.Named); ok {
					if ab := g.W.abstracts["bytesOf"+nt.Obj().Name()]; ab != nil && len(ab.Params) == 1 {
						if pt := g.W.resolveType(ab.Pkg, ab.Params[0], g); pt.G != nil && types.Identical(pt.G, xt.Elem()) {
							g.declSort("Bytes")
							g.declBytesOf()
							g.declareAbstract(ab)
							whole := g.loadLeaf(c.st, x.S, xt.Elem())
							sl := fmt.Sprintf("(mkSlice %s 0 %s %s)", x.S, n, n)
							g.sc.Assume(eq(app("bytesOf", g.heap(c.st, ek, es).S, sl), app(ab.Name, whole.S)))
						}
					}
				}
			}
		}
		fr.define(ins, Term{fmt.Sprintf("(mkSlice %s %s (- %s %s) (- %s %s))", x.S, lo, hi, lo, mx, lo), SSlice})
	default:
		g.fail("slice of %s", ins.X.Type())
	}
}

type arrView struct {
	arr Term
	t   types.Type
}

// syncArrView writes the element view of a leaf array back into the whole-array cell.
func (fr *Frame) syncArrView(v ssa.Value, st *State) {
	g := fr.g
	sl, ok := v.(*ssa.Slice)
	if !ok {
		return
	}
	av, ok := fr.arrViews[sl]
	if !ok {
		return
	}
	arr := av.t.Underlying().(*types.Array)
	es := g.sortOf(arr.Elem())
	s := g.sortOf(av.t)
	h := g.heap(st, g.heapKeyT(arr.Elem()), es)
	cur := g.loadLeaf(st, av.arr.S, av.t).S
	for k := int64(0); k < arr.Len(); k++ {
		cur = sto(cur, fmt.Sprint(k), sel(h.S, fmt.Sprintf("(Elem %s %d)", av.arr.S, k)))
	}
	g.writeCell(st, g.heapKeyT(av.t), s, av.arr.S, cur)
	g.arrSync[av.arr.S] = [2]string{g.heap(st, g.heapKeyT(av.t), s).S, g.heap(st, g.heapKeyT(arr.Elem()), es).S}
}

// ---------- maps ----------

func (fr *Frame) execLookup(ins *ssa.Lookup, c *blockCtx) {
	g := fr.g
	x := fr.val(ins.X)
	k := fr.val(ins.Index)
	mt, ok := ins.X.Type().Underlying().(*types.Map)
	if !ok {
		// string index
		g.sc.DeclareOnce("strat", "(declare-fun strat (Str Int) Int)")
		fr.define(ins, Term{app("strat", x.S, k.S), SInt})
		return
	}
	mv := g.mapHeaps(mt)
	dom := g.heap(c.st, mv.domKey, mv.domSort)
	val := g.heap(c.st, mv.valKey, mv.valSort)
	has := g.sc.Define(ins.Name()+"_has", Term{and(not(eq(x.S, "Nil")), sel(sel(dom.S, x.S), k.S)), SBool})
	v := g.sc.Define(ins.Name()+"_v", Term{ite(has.S, sel(sel(val.S, x.S), k.S), g.zero(mt.Elem()).S), mv.elemSort})
	g.sc.Assume(g.typeInv(v.S, mt.Elem()))
	if ins.CommaOk {
		fr.tuples[ins] = []Term{v, has}
	} else {
		fr.vals[ins] = v
	}
}

func (fr *Frame) execMapUpdate(ins *ssa.MapUpdate, c *blockCtx) {
	g := fr.g
	m := fr.val(ins.Map)
	k := fr.val(ins.Key)
	v := fr.val(ins.Value)
	mt := ins.Map.Type().Underlying().(*types.Map)
	fr.safety("nilmap", c.reach, not(eq(m.S, "Nil")), ins)
	g.mapPut(c.st, mt, m.S, k.S, v.S)
}

func (g *Gen) mapPut(st *State, mt *types.Map, m, k, v string) {
	mv := g.mapHeaps(mt)
	dom := g.heap(st, mv.domKey, mv.domSort)
	val := g.heap(st, mv.valKey, mv.valSort)
	card := g.heap(st, mv.cardKey, SInt)
	had := sel(sel(dom.S, m), k)
	g.writeCell(st, mv.cardKey, SInt, m, ite(had, sel(card.S, m), "(+ "+sel(card.S, m)+" 1)"))
	g.writeCell(st, mv.domKey, mv.domSort, m, sto(sel(dom.S, m), k, "true"))
	g.writeCell(st, mv.valKey, mv.valSort, m, sto(sel(val.S, m), k, v))
}

func (g *Gen) mapDelete(st *State, mt *types.Map, m, k string) {
	mv := g.mapHeaps(mt)
	dom := g.heap(st, mv.domKey, mv.domSort)
	card := g.heap(st, mv.cardKey, SInt)
	had := and(not(eq(m, "Nil")), sel(sel(dom.S, m), k))
	g.writeCell(st, mv.cardKey, SInt, m, ite(had, "(- "+sel(card.S, m)+" 1)", sel(card.S, m)))
	g.writeCell(st, mv.domKey, mv.domSort, m, sto(sel(dom.S, m), k, "false"))
}

type rangeState struct {
	m       Term
	mt      *types.Map
	visited Term // ghost visited set at loop head (array K Bool)
	isStr   bool
}

func (fr *Frame) execRange(ins *ssa.Range, c *blockCtx) {
	g := fr.g
	x := fr.val(ins.X)
	mt, ok := ins.X.Type().Underlying().(*types.Map)
	if !ok {
		g.fail("range over string")
	}
	mv := g.mapHeaps(mt)
	// the iterator object: a fresh ref with ghost visited set, initially empty
	obj := g.newObj()
	it := fr.define(ins, Term{obj, SRef})
	key := "Rvisited_" + sortKey(mv.keySort)
	g.writeCell(c.st, key, mv.domSort, it.S, "((as const "+mv.domSort+") false)")
	fr.ranges[ins] = &rangeState{m: x, mt: mt}
}

func (fr *Frame) execNext(ins *ssa.Next, c *blockCtx) {
	g := fr.g
	rng, ok := ins.Iter.(*ssa.Range)
	if !ok {
		g.fail("Next on non-range iterator")
	}
	rs := fr.ranges[rng]
	if rs == nil {
		g.fail("Next before Range")
	}
	it := fr.val(rng)
	mv := g.mapHeaps(rs.mt)
	vkey := "Rvisited_" + sortKey(mv.keySort)
	vis := sel(g.heap(c.st, vkey, mv.domSort).S, it.S)
	dom := sel(g.heap(c.st, mv.domKey, mv.domSort).S, rs.m.S)
	val := sel(g.heap(c.st, mv.valKey, mv.valSort).S, rs.m.S)
	k := g.sc.Fresh("rangekey", mv.keySort)
	okc := g.sc.Fresh("rangeok", SBool)
	// ok => k is an unvisited key of the map; !ok => every key of the map has been visited
	g.sc.Assume(implies(okc.S, and(not(eq(rs.m.S, "Nil")), sel(dom, k.S), not(sel(vis, k.S)))))
	g.sc.Assume(implies(not(okc.S), or(eq(rs.m.S, "Nil"), fmt.Sprintf("(forall ((kk %s)) (! (=> (select %s kk) (select %s kk)) :pattern ((select %s kk))))", mv.keySort, dom, vis, dom))))
	g.sc.Assume(g.typeInv(k.S, rs.mt.Key()))
	v := g.sc.Define("rangeval", Term{sel(val, k.S), mv.elemSort})
	g.sc.Assume(g.typeInv(v.S, rs.mt.Elem()))
	g.writeCell(c.st, vkey, mv.domSort, it.S, ite(okc.S, sto(vis, k.S, "true"), vis))
	fr.tuples[ins] = []Term{okc, k, v}
}

// ---------- panic ----------

func (fr *Frame) execPanic(ins *ssa.Panic, c *blockCtx) {
	g := fr.g
	allowed := "false"
	if fr.contract != nil && fr.parent == nil {
		env := fr.baseEnv(c.st)
		for _, p := range fr.contract.PanicsIf {
			allowed = or(allowed, env.trBool(p.E))
		}
	}
	fr.callOrd["panic"]++
	g.oblige("safety", fr.oname("safety", fmt.Sprintf("panic@%d", fr.callOrd["panic"])), c.reach, allowed, "explicit panic", true)
}

// declBytesOf declares the abstract content function of byte slices; an empty slice has the empty content.
func (g *Gen) declBytesOf() {
	if g.sc.declared["bytesOf"] {
		return
	}
	g.declSort("Bytes")
	g.sc.DeclareOnce("bytesOf", "(declare-fun bytesOf ((Array Ref Int) Slice) Bytes)")
	if be := g.W.abstracts["bempty"]; be != nil && len(be.Params) == 0 {
		g.declareAbstract(be)
		g.sc.Decl("(assert (forall ((h (Array Ref Int)) (s Slice)) (! (=> (= (slen s) 0) (= (bytesOf h s) bempty)) :pattern ((bytesOf h s)))))")
	}
}

// bytesFrame: the abstract content bytes(s) of a byte slice is unchanged by writes outside its backing array.
func (g *Gen) bytesFrame(newHeap, oldHeap, unaffected string) {
	g.declSort("Bytes")
	g.declBytesOf()
	if newHeap == oldHeap {
		return
	}
	g.sc.Assume(fmt.Sprintf("(forall ((s Slice)) (! (=> %s (= (bytesOf %s s) (bytesOf %s s))) :pattern ((bytesOf %s s))))", unaffected, newHeap, oldHeap, newHeap))
}

// ghostInit applies "ghost init T $f = e" declarations to a freshly allocated object of type T.
func (g *Gen) ghostInit(st *State, addr string, t types.Type) {
	n, ok := types.Unalias(t).(*types.Named)
	if !ok || n.Obj().Pkg() == nil {
		return
	}
	for _, gi := range g.W.inits {
		ty, ok := g.tryResolve(gi.Pkg, gi.Type)
		if !ok || ty.G == nil || !types.Identical(ty.G, t) {
			continue
		}
		env := &Env{g: g, pkg: gi.Pkg, vars: map[string]Binding{}, st: st}
		v, _ := env.tr(gi.E)
		g.setGhost(st, gi.Field, addr, v.S)
	}
}

func (g *Gen) tryResolve(pkg, ts string) (ty Ty, ok bool) {
	defer func() {
		if r := recover(); r != nil {
			if _, is := r.(unsupported); is {
				ok = false
				return
			}
			panic(r)
		}
	}()
	return g.W.resolveType(pkg, ts, g), true
}

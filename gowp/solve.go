package main

import (
	"bytes"
	"context"
	"crypto/sha1"
	"fmt"
	"os"
	"os/exec"
	"path/filepath"
	"strings"
	"sync"
	"time"
)

type Verdict struct {
	Obl    *Obligation
	Status string // discharged, failed, unknown, error, covered, vacuous
	Solver string
	Ms     int64
	Model  string
	File   string
	Detail string
}

type solverSpec struct {
	name string
	bin  string
	args func(timeoutMs int) []string
	head string
}

var solvers = []solverSpec{
	{"z3-4.8.12", "/usr/bin/z3", func(t int) []string { return []string{"-smt2", fmt.Sprintf("-T:%d", (t+999)/1000)} },
		"(set-option :smt.mbqi false)\n(set-option :auto_config false)\n(set-option :smt.auto_config false)\n"},
	{"z3-5.1.0", "z3-new", func(t int) []string { return []string{"-smt2", fmt.Sprintf("-T:%d", (t+999)/1000)} },
		"(set-option :smt.mbqi false)\n(set-option :auto_config false)\n(set-option :smt.auto_config false)\n"},
	// the same solver without the array extensionality axioms (a weaker theory: an unsat answer stays valid); much
	// faster on heaps that hold maps keyed by arrays
	{"z3-5.1.0-noext", "z3-new", func(t int) []string {
		return []string{"-smt2", fmt.Sprintf("-T:%d", (t+999)/1000), "smt.array.extensional=false"}
	},
		"(set-option :smt.mbqi false)\n(set-option :auto_config false)\n(set-option :smt.auto_config false)\n"},
}

// oblText builds the SMT-LIB text of an obligation.
func (g *Gen) oblText(o *Obligation, head string) string { return g.oblTextExtra(o, head, "") }

// oblTextExtra: the obligation with one more assumption (a case of a case split).
func (g *Gen) oblTextExtra(o *Obligation, head string, extra string) string {
	var b strings.Builder
	b.WriteString("; obligation: " + o.Name + "\n")
	b.WriteString(head)
	for _, l := range g.sc.decls {
		b.WriteString(l)
		b.WriteByte('\n')
	}
	for _, l := range g.sc.lines[:o.Prefix] {
		b.WriteString(l)
		b.WriteByte('\n')
	}
	b.WriteString("(assert " + o.Reach + ")\n")
	if extra != "" {
		b.WriteString("(assert " + extra + ")\n")
	}
	if !o.Cover {
		b.WriteString("(assert (not " + o.Goal + "))\n")
	}
	b.WriteString("(check-sat)\n")
	return b.String()
}

func runSolver(ctx context.Context, sp solverSpec, file string, timeoutMs int) (string, string, int64) {
	start := time.Now()
	if os.Getenv("GOWP_NOEXT") != "" {
		sp.args = func(base func(int) []string) func(int) []string {
			return func(t int) []string { return append(base(t), "smt.array.extensional=false") }
		}(sp.args)
	}
	cctx, cancel := context.WithTimeout(ctx, time.Duration(timeoutMs+2000)*time.Millisecond)
	defer cancel()
	args := append(sp.args(timeoutMs), file)
	cmd := exec.CommandContext(cctx, sp.bin, args...)
	var out bytes.Buffer
	cmd.Stdout = &out
	cmd.Stderr = &out
	_ = cmd.Run()
	ms := time.Since(start).Milliseconds()
	txt := out.String()
	// the verdict is the first line that is not a solver warning (z3 prints pattern warnings before it)
	first := ""
	for _, l := range strings.Split(txt, "\n") {
		l = strings.TrimSpace(l)
		if l == "" || strings.HasPrefix(l, "WARNING") {
			continue
		}
		first = l
		break
	}
	return first, txt, ms
}

// Solve discharges obligations in parallel. workDir receives the SMT files.
func Solve(g *Gen, obls []*Obligation, workDir string, timeoutMs int, par int) []*Verdict {
	os.MkdirAll(workDir, 0o755)
	res := make([]*Verdict, len(obls))
	sem := make(chan struct{}, par)
	var wg sync.WaitGroup
	for i, o := range obls {
		wg.Add(1)
		go func(i int, o *Obligation) {
			defer wg.Done()
			sem <- struct{}{}
			defer func() { <-sem }()
			res[i] = solveOne(g, o, workDir, timeoutMs)
		}(i, o)
	}
	wg.Wait()
	return res
}

func solveOne(g *Gen, o *Obligation, workDir string, timeoutMs int) *Verdict {
	h := sha1.Sum([]byte(fmt.Sprintf("%s|%d|%s", o.Name, o.Prefix, o.Goal)))
	base := filepath.Join(workDir, fmt.Sprintf("%s_%x", clean(lastN(o.Name, 60)), h[:4]))
	v := &Verdict{Obl: o}
	// race the solvers: first definite answer wins
	type ans struct {
		first, txt, solver string
		ms                 int64
	}
	ctx, cancel := context.WithCancel(context.Background())
	defer cancel()
	ch := make(chan ans, len(solvers))
	nUse := len(solvers)
	if o.Cover {
		nUse = 1
	}
	if o.TimeoutMs > 0 {
		timeoutMs = o.TimeoutMs
	}
	use := solvers
	if o.Cover {
		if timeoutMs > 1500 {
			timeoutMs = 1500
		}
		use = solvers[1:2]
	}
	for si, sp := range use {
		file := fmt.Sprintf("%s.%d.smt2", base, si)
		if err := os.WriteFile(file, []byte(g.oblText(o, sp.head)), 0o644); err != nil {
			v.Status = "error"
			v.Detail = err.Error()
			return v
		}
		v.File = file
		go func(sp solverSpec, file string) {
			f, txt, ms := runSolver(ctx, sp, file, timeoutMs)
			ch <- ans{f, txt, sp.name, ms}
		}(sp, file)
	}
	var last ans
	for i := 0; i < nUse; i++ {
		a := <-ch
		if a.first == "sat" && strings.HasSuffix(a.solver, "-noext") {
			a.first = "unknown" // a model of the weaker theory proves nothing
		}
		if (last.first == "unsat" || last.first == "sat") && a.first != "unsat" && a.first != "sat" {
			continue
		}
		last = a
		if a.first == "unsat" || a.first == "sat" {
			cancel()
			break
		}
	}
	v.Solver = last.solver
	v.Ms = last.ms
	switch {
	case o.Cover && last.first == "sat":
		v.Status = "covered"
	case o.Cover && last.first == "unsat":
		v.Status = "vacuous"
	case o.Cover:
		// unknown on a cover query: with quantifiers and mbqi off z3 answers unknown for satisfiable
		// problems; that is the expected answer (no contradiction found)
		v.Status = "covered"
		v.Detail = "unknown (no contradiction found)"
	case last.first == "unsat":
		v.Status = "discharged"
	case last.first == "sat":
		v.Status = "failed"
		v.Detail = "sat"
	default:
		v.Status = "unknown"
		v.Detail = trunc(last.txt, 200)
		if len(o.Splits) > 1 && !o.Cover {
			if ms, ok := solveSplit(g, o, base, timeoutMs); ok {
				v.Status = "discharged"
				v.Solver = "z3-5.1.0+split"
				v.Ms += ms
				v.Detail = fmt.Sprintf("case split over %d incoming edges", len(o.Splits))
			} else {
				v.Ms += ms
			}
		}
	}
	return v
}

// solveSplit proves an obligation by cases: one query per incoming edge of the nearest control-flow merge, plus one
// query showing that the cases are exhaustive under the path condition. All must be unsat.
func solveSplit(g *Gen, o *Obligation, base string, timeoutMs int) (int64, bool) {
	sp := solvers[2] // unsat answers only: the weaker, faster theory is enough
	var total int64
	cases := append([]string(nil), o.Splits...)
	var negs []string
	for _, c := range o.Splits {
		negs = append(negs, "(not "+c+")")
	}
	for i, c := range cases {
		file := fmt.Sprintf("%s.split%d.smt2", base, i)
		if err := os.WriteFile(file, []byte(g.oblTextExtra(o, sp.head, c)), 0o644); err != nil {
			return total, false
		}
		first, _, ms := runSolver(context.Background(), sp, file, timeoutMs)
		total += ms
		if first != "unsat" {
			return total, false
		}
	}
	// exhaustiveness: reach and none of the cases is contradictory (goal replaced by false)
	ex := *o
	ex.Goal = "false"
	file := base + ".splitx.smt2"
	if err := os.WriteFile(file, []byte(g.oblTextExtra(&ex, sp.head, "(and "+strings.Join(negs, " ")+")")), 0o644); err != nil {
		return total, false
	}
	first, _, ms := runSolver(context.Background(), sp, file, timeoutMs)
	total += ms
	return total, first == "unsat"
}

func lastN(s string, n int) string {
	if len(s) > n {
		return s[len(s)-n:]
	}
	return s
}

package main

import (
	"fmt"
	"go/types"
	"sort"
	"strings"
)

// Term is an SMT-LIB term with its sort.
type Term struct {
	S    string
	Sort string
}

func (t Term) String() string { return t.S }

const (
	SInt   = "Int"
	SBool  = "Bool"
	SRef   = "Ref"
	SSlice = "Slice"
	SIface = "Iface"
	SStr   = "Str"
	SReal  = "Real"
)

// Script is a linear SMT-LIB script under construction. Obligations refer to prefixes of it.
type Script struct {
	decls    []string // global declarations and closed axioms (never rolled back)
	lines    []string
	n        int
	declared map[string]bool
	defs     map[string]string // define-fun name -> body
}

// Decl appends a global declaration (sort, datatype, function, closed axiom).
func (s *Script) Decl(l string) { s.decls = append(s.decls, l) }

func NewScript() *Script {
	return &Script{declared: map[string]bool{}, defs: map[string]string{}}
}

func (s *Script) emit(l string) { s.lines = append(s.lines, l) }

func (s *Script) Comment(f string, a ...any) {
	s.emit("; " + strings.ReplaceAll(fmt.Sprintf(f, a...), "\n", " "))
}

func clean(name string) string {
	var b strings.Builder
	for _, c := range name {
		if (c >= 'a' && c <= 'z') || (c >= 'A' && c <= 'Z') || (c >= '0' && c <= '9') || c == '_' {
			b.WriteRune(c)
		} else {
			b.WriteByte('_')
		}
	}
	return b.String()
}

func (s *Script) freshName(prefix string) string {
	s.n++
	return fmt.Sprintf("%s!%d", clean(prefix), s.n)
}

// Fresh declares a new unconstrained constant.
func (s *Script) Fresh(prefix, sort string) Term {
	n := s.freshName(prefix)
	s.emit(fmt.Sprintf("(declare-const %s %s)", n, sort))
	return Term{n, sort}
}

// Define introduces a named abbreviation.
func (s *Script) Define(prefix string, t Term) Term {
	// do not rename atoms
	if !strings.ContainsAny(t.S, " (") {
		return t
	}
	n := s.freshName(prefix)
	s.emit(fmt.Sprintf("(define-fun %s () %s %s)", n, t.Sort, t.S))
	s.defs[n] = t.S
	return Term{n, t.Sort}
}

func (s *Script) Assume(f string) {
	if f == "true" {
		return
	}
	s.emit("(assert " + f + ")")
}

func (s *Script) DeclareOnce(key, decl string) {
	if s.declared[key] {
		return
	}
	s.declared[key] = true
	s.Decl(decl)
}

func (s *Script) Len() int { return len(s.lines) }

// ---- formula helpers ----

func and(fs ...string) string {
	var out []string
	for _, f := range fs {
		if f == "true" || f == "" {
			continue
		}
		if f == "false" {
			return "false"
		}
		out = append(out, f)
	}
	switch len(out) {
	case 0:
		return "true"
	case 1:
		return out[0]
	}
	return "(and " + strings.Join(out, " ") + ")"
}

func or(fs ...string) string {
	var out []string
	for _, f := range fs {
		if f == "false" || f == "" {
			continue
		}
		if f == "true" {
			return "true"
		}
		out = append(out, f)
	}
	switch len(out) {
	case 0:
		return "false"
	case 1:
		return out[0]
	}
	return "(or " + strings.Join(out, " ") + ")"
}

func not(f string) string {
	switch f {
	case "true":
		return "false"
	case "false":
		return "true"
	}
	if strings.HasPrefix(f, "(not ") && strings.HasSuffix(f, ")") {
		inner := f[5 : len(f)-1]
		if balanced(inner) {
			return inner
		}
	}
	return "(not " + f + ")"
}

func balanced(s string) bool {
	d := 0
	for i := 0; i < len(s); i++ {
		if s[i] == '(' {
			d++
		} else if s[i] == ')' {
			d--
			if d < 0 {
				return false
			}
		} else if d == 0 && s[i] == ' ' {
			return false
		}
	}
	return d == 0
}

func implies(a, b string) string {
	if a == "true" {
		return b
	}
	if a == "false" || b == "true" {
		return "true"
	}
	return "(=> " + a + " " + b + ")"
}

func ite(c, a, b string) string {
	if c == "true" {
		return a
	}
	if c == "false" {
		return b
	}
	if a == b {
		return a
	}
	return "(ite " + c + " " + a + " " + b + ")"
}

func eq(a, b string) string {
	if a == b {
		return "true"
	}
	return "(= " + a + " " + b + ")"
}

func intLit(v string) string {
	if strings.HasPrefix(v, "-") {
		return "(- " + v[1:] + ")"
	}
	return v
}

func sel(h, a string) string    { return "(select " + h + " " + a + ")" }
func sto(h, a, v string) string { return "(store " + h + " " + a + " " + v + ")" }
func app(f string, a ...string) string {
	if len(a) == 0 {
		return f
	}
	return "(" + f + " " + strings.Join(a, " ") + ")"
}

// ---- prelude ----

const preludeText = `(declare-datatypes ((Ref 0)) (((Nil) (Obj (oid Int)) (Fld (fbase Ref) (fid Int)) (Elem (ebase Ref) (eidx Int)) (Glob (gid Int)))))
(declare-datatypes ((Slice 0)) (((mkSlice (sarr Ref) (soff Int) (slen Int) (scap Int)))))
(declare-datatypes ((Iface 0)) (((mkIface (itag Int) (iref Ref)))))
(declare-sort Str 0)
(declare-fun strlen (Str) Int)
(declare-fun strid (Str) Int)
(declare-fun strcat (Str Str) Str)
(declare-fun rootOid (Ref) Int)
(assert (= (rootOid Nil) (- 1)))
(assert (forall ((n Int)) (! (= (rootOid (Obj n)) n) :pattern ((Obj n)))))
(assert (forall ((b Ref) (i Int)) (! (= (rootOid (Fld b i)) (rootOid b)) :pattern ((Fld b i)))))
(assert (forall ((b Ref) (i Int)) (! (= (rootOid (Elem b i)) (rootOid b)) :pattern ((Elem b i)))))
(assert (forall ((g Int)) (! (= (rootOid (Glob g)) (- 1)) :pattern ((Glob g)))))
(define-fun elemArr ((r Ref)) Ref (ite ((_ is Elem) r) (ebase r) (ite (and ((_ is Fld) r) ((_ is Elem) (fbase r))) (ebase (fbase r)) (ite (and ((_ is Fld) r) ((_ is Fld) (fbase r)) ((_ is Elem) (fbase (fbase r)))) (ebase (fbase (fbase r))) (ite (and ((_ is Fld) r) ((_ is Fld) (fbase r)) ((_ is Fld) (fbase (fbase r))) ((_ is Elem) (fbase (fbase (fbase r))))) (ebase (fbase (fbase (fbase r)))) Nil)))))
(define-fun elemIdx ((r Ref)) Int (ite ((_ is Elem) r) (eidx r) (ite (and ((_ is Fld) r) ((_ is Elem) (fbase r))) (eidx (fbase r)) (ite (and ((_ is Fld) r) ((_ is Fld) (fbase r)) ((_ is Elem) (fbase (fbase r)))) (eidx (fbase (fbase r))) (ite (and ((_ is Fld) r) ((_ is Fld) (fbase r)) ((_ is Fld) (fbase (fbase r))) ((_ is Elem) (fbase (fbase (fbase r))))) (eidx (fbase (fbase (fbase r)))) 0)))))
(declare-fun gomod (Int Int) Int)
(declare-fun godiv (Int Int) Int)
(declare-fun bitand (Int Int) Int)
(declare-fun bitor (Int Int) Int)
(declare-fun bitxor (Int Int) Int)
(declare-fun shl (Int Int) Int)
(declare-fun shr (Int Int) Int)
(define-fun nilIface () Iface (mkIface 0 Nil))
(define-fun nilSlice () Slice (mkSlice Nil 0 0 0))
(declare-const allocBase Int)
(assert (>= allocBase 0))
`

// sort key used in heap names
func sortKey(sort string) string {
	r := strings.NewReplacer("(", "", ")", "", " ", "_")
	return r.Replace(sort)
}

func arraySort(idx, elem string) string { return "(Array " + idx + " " + elem + ")" }

// intRange returns lo, hi (inclusive) decimal strings for a basic integer type; ok=false for non-ints.
func intRange(b *types.Basic) (lo, hi string, ok bool) {
	switch b.Kind() {
	case types.Int8:
		return "-128", "127", true
	case types.Int16:
		return "-32768", "32767", true
	case types.Int32, types.UntypedRune:
		return "-2147483648", "2147483647", true
	case types.Int, types.Int64, types.UntypedInt:
		return "-9223372036854775808", "9223372036854775807", true
	case types.Uint8:
		return "0", "255", true
	case types.Uint16:
		return "0", "65535", true
	case types.Uint32:
		return "0", "4294967295", true
	case types.Uint, types.Uint64, types.Uintptr:
		return "0", "18446744073709551615", true
	}
	return "", "", false
}

func pow2(bits int) string {
	switch bits {
	case 8:
		return "256"
	case 16:
		return "65536"
	case 32:
		return "4294967296"
	case 64:
		return "18446744073709551616"
	}
	panic("pow2")
}

func intBits(b *types.Basic) (bits int, signed bool) {
	switch b.Kind() {
	case types.Int8:
		return 8, true
	case types.Int16:
		return 16, true
	case types.Int32, types.UntypedRune:
		return 32, true
	case types.Int, types.Int64, types.UntypedInt:
		return 64, true
	case types.Uint8:
		return 8, false
	case types.Uint16:
		return 16, false
	case types.Uint32:
		return 32, false
	case types.Uint, types.Uint64, types.Uintptr:
		return 64, false
	}
	return 0, false
}

// wrap returns term wrapped to the range of basic integer type b.
func wrapInt(t string, b *types.Basic) string {
	bits, signed := intBits(b)
	if bits == 0 {
		return t
	}
	m := pow2(bits)
	if !signed {
		return "(mod " + t + " " + m + ")"
	}
	half := map[int]string{8: "128", 16: "32768", 32: "2147483648", 64: "9223372036854775808"}[bits]
	return "(- (mod (+ " + t + " " + half + ") " + m + ") " + half + ")"
}

// wrapNear wraps a term known to lie within one period of the range of b (sum or difference of two in-range values,
// conversion between integer types of the same width): a case distinction instead of mod, which SMT solvers handle
// far better.
func wrapNear(t string, b *types.Basic) string {
	lo, hi, ok := intRange(b)
	if !ok {
		return wrapInt(t, b)
	}
	bits, _ := intBits(b)
	m := pow2(bits)
	if strings.HasPrefix(lo, "-") {
		lo = "(- " + lo[1:] + ")"
	}
	return fmt.Sprintf("(ite (> %s %s) (- %s %s) (ite (< %s %s) (+ %s %s) %s))", t, hi, t, m, t, lo, t, m, t)
}

func sortedKeys[V any](m map[string]V) []string {
	var ks []string
	for k := range m {
		ks = append(ks, k)
	}
	sort.Strings(ks)
	return ks
}

// expandAddr expands define-fun names at the address-forming positions of a Ref term, so that the shape
// of the address (Fld/Elem/Obj layers) is visible to the loop write-set classification.
func (s *Script) expandAddr(t string) string {
	t = s.expandLoads(t, 0)
	for i := 0; i < 20; i++ {
		if d, ok := s.defs[t]; ok && (strings.HasPrefix(d, "(Fld ") || strings.HasPrefix(d, "(Elem ") || strings.HasPrefix(d, "(Obj ") || strings.HasPrefix(d, "(iref ")) {
			t = d
			continue
		}
		break
	}
	switch {
	case strings.HasPrefix(t, "(Fld "):
		inner := firstArg(t[len("(Fld "):])
		rest := t[len("(Fld ")+len(inner):]
		return "(Fld " + s.expandAddr(inner) + rest
	case strings.HasPrefix(t, "(Elem "):
		inner := firstArg(t[len("(Elem "):])
		rest := t[len("(Elem ")+len(inner):]
		return "(Elem " + s.expandAddr(inner) + rest
	case strings.HasPrefix(t, "(iref "):
		inner := strings.TrimSuffix(t[len("(iref "):], ")")
		if d, ok := s.defs[inner]; ok && strings.HasPrefix(d, "(mkIface ") {
			parts := strings.SplitN(d[len("(mkIface "):len(d)-1], " ", 2)
			if len(parts) == 2 {
				return s.expandAddr(parts[1])
			}
		}
	}
	return t
}

// expandLoads replaces, inside an address term, names defined as plain loads "(select H a)" or as address
// constructors by their definitions, so that an address computed from unchanged memory inside a loop body is
// recognised as independent of the iteration (the names of heaps that did change stay and mark it as dependent).
func (s *Script) expandLoads(t string, depth int) string {
	if depth > 12 || len(t) > 4000 {
		return t
	}
	var b strings.Builder
	i := 0
	changed := false
	for i < len(t) {
		c := t[i]
		if c == '(' || c == ')' || c == ' ' {
			b.WriteByte(c)
			i++
			continue
		}
		j := i
		for j < len(t) && t[j] != '(' && t[j] != ')' && t[j] != ' ' {
			j++
		}
		tok := t[i:j]
		if d, ok := s.defs[tok]; ok && (strings.HasPrefix(d, "(select H_") || strings.HasPrefix(d, "(Fld ") || strings.HasPrefix(d, "(Elem ") || strings.HasPrefix(d, "(Obj ")) && len(d) < 600 {
			b.WriteString(d)
			changed = true
		} else {
			b.WriteString(tok)
		}
		i = j
	}
	if !changed {
		return t
	}
	return s.expandLoads(b.String(), depth+1)
}

// patternUnsafe reports whether term t, with define-funs expanded, contains a connective z3 rejects in patterns.
func (s *Script) patternUnsafe(t string) bool {
	seen := map[string]bool{}
	var rec func(x string) bool
	rec = func(x string) bool {
		for _, tk := range strings.Fields(strings.NewReplacer("(", " ", ")", " ").Replace(x)) {
			switch tk {
			case "ite", "and", "or", "not", "=>", "=", "<", "<=", ">", ">=":
				return true
			}
			if d, ok := s.defs[tk]; ok && !seen[tk] {
				seen[tk] = true
				if rec(d) {
					return true
				}
			}
		}
		return false
	}
	return rec(t)
}

package main

import (
	"fmt"
	"go/constant"
	"go/types"
	"os"
	"strings"
)

type Binding struct {
	T  Term
	Ty Ty
}

// Env is the context in which a spec expression is translated.
type Env struct {
	g           *Gen
	pkg         string
	vars        map[string]Binding
	st          *State
	old         *State
	resolve     func(name string, st *State) (Term, Ty, bool)
	macroDepth  int
	freshFloor  string
	reidx       map[string]reidxInfo
	resolveAddr func(name string) (string, types.Type, bool)
}

// reidxInfo: bound variable re-indexed to the absolute element index of one slice (DESIGN §2.13 rule 8).
type reidxInfo struct {
	slice string // String() of the slice expression
	k     string // absolute index variable
}

func (e *Env) with(name string, b Binding) *Env {
	n := *e
	n.vars = make(map[string]Binding, len(e.vars)+1)
	for k, v := range e.vars {
		n.vars[k] = v
	}
	n.vars[name] = b
	return &n
}

func (e *Env) inState(st *State) *Env {
	n := *e
	n.st = st
	return &n
}

func goTy(t types.Type) Ty { return Ty{G: t} }

var mathInt = Ty{Spec: SInt}
var specBool = Ty{Spec: SBool}

func (e *Env) trBool(x Expr) string {
	t, _ := e.tr(x)
	if t.Sort != SBool {
		e.g.fail("spec expression %s is not boolean (sort %s)", x, t.Sort)
	}
	return t.S
}

func (e *Env) tr(x Expr) (Term, Ty) {
	g := e.g
	switch x := x.(type) {
	case *EInt:
		v := x.V
		if strings.HasPrefix(v, "0x") || strings.HasPrefix(v, "0X") {
			c := constant.MakeFromLiteral(v, 5 /*token.INT*/, 0)
			v = c.ExactString()
		}
		return Term{v, SInt}, mathInt
	case *EBool:
		if x.V {
			return Term{"true", SBool}, specBool
		}
		return Term{"false", SBool}, specBool
	case *EStr:
		return g.strLit(x.V), goTy(types.Typ[types.String])
	case *ENil:
		return Term{"Nil", "nil"}, Ty{}
	case *EIdent:
		return e.trIdent(x.Name)
	case *EOld:
		if e.old == nil {
			g.fail("old() used where no old state exists: %s", x)
		}
		return e.inState(e.old).tr(x.X)
	case *ECond:
		c := e.trBool(x.C)
		a, ta := e.tr(x.T)
		b, _ := e.tr(x.F)
		a, b = e.unifyNil(a, b)
		return Term{ite(c, a.S, b.S), a.Sort}, ta
	case *EUnary:
		switch x.Op {
		case "!":
			return Term{not(e.trBool(x.X)), SBool}, specBool
		case "-":
			t, ty := e.tr(x.X)
			return Term{"(- " + t.S + ")", t.Sort}, ty
		case "*":
			t, ty := e.tr(x.X)
			if ty.G == nil {
				g.fail("deref of non-Go value %s", x.X)
			}
			p, ok := ty.G.Underlying().(*types.Pointer)
			if !ok {
				g.fail("deref of non-pointer %s (%s)", x.X, ty)
			}
			return g.load(e.st, t.S, p.Elem()), goTy(p.Elem())
		case "&":
			a, ty := e.addrOf(x.X)
			return Term{a, SRef}, goTy(types.NewPointer(ty))
		}
	case *EBin:
		return e.trBin(x)
	case *ESel:
		return e.trSel(x)
	case *EIndex:
		return e.trIndex(x)
	case *ESlice:
		s, ty := e.tr(x.X)
		if s.Sort == SStr {
			lo, hi := "0", "(strlen "+s.S+")"
			if x.Lo != nil {
				t, _ := e.tr(x.Lo)
				lo = t.S
			}
			if x.Hi != nil {
				t, _ := e.tr(x.Hi)
				hi = t.S
			}
			g.sc.DeclareOnce("substr", "(declare-fun substr (Str Int Int) Str)")
			return Term{app("substr", s.S, lo, hi), SStr}, ty
		}
		if s.Sort != SSlice {
			g.fail("slicing non-slice in spec: %s", x)
		}
		lo, hi := "0", "(slen "+s.S+")"
		if x.Lo != nil {
			t, _ := e.tr(x.Lo)
			lo = t.S
		}
		if x.Hi != nil {
			t, _ := e.tr(x.Hi)
			hi = t.S
		}
		return Term{fmt.Sprintf("(mkSlice (sarr %s) (+ (soff %s) %s) (- %s %s) (- (scap %s) %s))", s.S, s.S, lo, hi, lo, s.S, lo), SSlice}, ty
	case *ECall:
		return e.trCall(x)
	case *EQuant:
		return e.trQuant(x)
	}
	g.fail("cannot translate spec expression %s (%T)", x, x)
	return Term{}, Ty{}
}

func (e *Env) unifyNil(a, b Term) (Term, Term) {
	fix := func(n Term, other Term) Term {
		if n.Sort != "nil" {
			return n
		}
		switch other.Sort {
		case SIface:
			return Term{"nilIface", SIface}
		case SSlice:
			return Term{"nilSlice", SSlice}
		default:
			return Term{"Nil", SRef}
		}
	}
	return fix(a, b), fix(b, a)
}

func (e *Env) trIdent(name string) (Term, Ty) {
	g := e.g
	if b, ok := e.vars[name]; ok {
		return b.T, b.Ty
	}
	if (name == "$i" || name == "$io" || name == "$k" || name == "$visited" || strings.HasPrefix(name, "$r") || (strings.HasPrefix(name, "$a") && len(name) <= 4 && name[2] >= '0' && name[2] <= '9') || strings.HasPrefix(name, "$y") || strings.HasPrefix(name, "$h_")) && e.resolve != nil {
		if t, ty, ok := e.resolve(name, e.st); ok {
			return t, ty
		}
	}
	if strings.HasPrefix(name, "$") {
		// scalar ghost variable
		key, es, gf := g.ghostField(name)
		if !gf.Var {
			g.fail("ghost field %s used without receiver", name)
		}
		h := g.heap(e.st, key, es)
		return Term{sel(h.S, "Nil"), es}, g.W.resolveType(gf.Pkg, gf.Type, g)
	}
	if e.resolve != nil {
		if t, ty, ok := e.resolve(name, e.st); ok {
			return t, ty
		}
	}
	// package-level object
	if p := g.W.byPath[e.pkg]; p != nil {
		if obj := p.Types.Scope().Lookup(name); obj != nil {
			return e.trObject(obj)
		}
	}
	if d, ok := g.W.defines[name]; ok && len(d.Params) == 0 {
		return e.expandDefine(d, nil)
	}
	if a, ok := g.W.abstracts[name]; ok && len(a.Params) == 0 {
		return e.applyAbstract(a, nil)
	}
	g.fail("unknown identifier %q in spec (package %s)", name, e.pkg)
	return Term{}, Ty{}
}

func (e *Env) trObject(obj types.Object) (Term, Ty) {
	g := e.g
	switch o := obj.(type) {
	case *types.Const:
		return g.constTerm(o.Val(), o.Type()), goTy(o.Type())
	case *types.Var:
		a := g.globalAddr(o)
		return g.load(e.st, a, o.Type()), goTy(o.Type())
	}
	g.fail("object %s not usable in spec", obj)
	return Term{}, Ty{}
}

// addrOf returns the address of an lvalue spec expression and its element type.
func (e *Env) addrOf(x Expr) (string, types.Type) {
	g := e.g
	switch x := x.(type) {
	case *ESel:
		if strings.HasPrefix(x.Sel, "$") {
			g.fail("address of ghost field")
		}
		// a struct-valued field of an addressable object: go through its address instead of loading it whole
		if _, isSel := x.X.(*ESel); isSel {
			if ba, bt, ok := e.tryAddrOf(x.X); ok {
				if _, isStruct := bt.Underlying().(*types.Struct); isStruct {
					a, ft, _ := e.fieldPath(Term{ba, SRef}, types.NewPointer(bt), x.Sel, true)
					return a, ft
				}
			}
		}
		base, bty := e.tr(x.X)
		if bty.G == nil {
			g.fail("selector on non-Go value: %s", x)
		}
		a, ft, isAddr := e.fieldPath(base, bty.G, x.Sel, true)
		if !isAddr {
			g.fail("%s is not addressable", x)
		}
		return a, ft
	case *EIndex:
		s, ty := e.tr(x.X)
		i, _ := e.tr(x.I)
		if sl, ok := ty.G.Underlying().(*types.Slice); ok {
			if id, ok := x.I.(*EIdent); ok {
				if ri, ok := e.reidx[id.Name]; ok && ri.slice == x.X.String() {
					return fmt.Sprintf("(Elem (sarr %s) %s)", s.S, ri.k), sl.Elem()
				}
			}
			return fmt.Sprintf("(Elem (sarr %s) (+ (soff %s) %s))", s.S, s.S, i.S), sl.Elem()
		}
		if p, ok := ty.G.Underlying().(*types.Pointer); ok {
			if arr, ok := p.Elem().Underlying().(*types.Array); ok {
				return fmt.Sprintf("(Elem %s %s)", s.S, i.S), arr.Elem()
			}
		}
	case *EUnary:
		if x.Op == "*" {
			t, ty := e.tr(x.X)
			if p, ok := ty.G.Underlying().(*types.Pointer); ok {
				return t.S, p.Elem()
			}
		}
	case *EIdent:
		if e.resolveAddr != nil {
			if a, t, ok := e.resolveAddr(x.Name); ok {
				return a, t
			}
		}
		// a global variable
		if p := g.W.byPath[e.pkg]; p != nil {
			if v, ok := p.Types.Scope().Lookup(x.Name).(*types.Var); ok {
				return g.globalAddr(v), v.Type()
			}
		}
	}
	g.fail("cannot take address of %s", x)
	return "", nil
}

// fieldPath resolves selector name on a base value. If the base is a pointer (or addressable path) the
// result is an address (isAddr=true) unless wantAddr is false, in which case the value is loaded.
func (e *Env) fieldPath(base Term, bt types.Type, name string, wantAddr bool) (string, types.Type, bool) {
	g := e.g
	var pkg *types.Package
	// allow access to unexported fields of any package: find the defining package of the struct
	if n := namedOf(bt); n != nil && n.Obj() != nil {
		pkg = n.Obj().Pkg()
	}
	obj, index, _ := types.LookupFieldOrMethod(bt, true, pkg, name)
	fld, ok := obj.(*types.Var)
	if !ok || fld == nil {
		// try all packages of embedded types: fall back to manual search
		idx, ft := findField(bt, name)
		if idx == nil {
			g.fail("no field %s in %s", name, bt)
		}
		index = idx
		_ = ft
	}
	cur := base.S
	ct := bt
	isAddr := false
	if p, ok := ct.Underlying().(*types.Pointer); ok {
		isAddr = true
		ct = p.Elem()
	}
	for k, i := range index {
		st, ok := ct.Underlying().(*types.Struct)
		if !ok {
			g.fail("field path through non-struct %s", ct)
		}
		f := st.Field(i)
		if isAddr {
			cur = fmt.Sprintf("(Fld %s %d)", cur, i)
		} else {
			cur = fmt.Sprintf("(%s_f%d %s)", g.sortOf(ct), i, cur)
		}
		ct = f.Type()
		if k < len(index)-1 {
			// intermediate embedded field
			if p, ok := ct.Underlying().(*types.Pointer); ok {
				if isAddr {
					cur = g.loadLeaf(e.st, cur, ct).S
				}
				isAddr = true
				ct = p.Elem()
			}
		}
	}
	return cur, ct, isAddr
}

func namedOf(t types.Type) *types.Named {
	t = types.Unalias(t)
	if p, ok := t.(*types.Pointer); ok {
		t = types.Unalias(p.Elem())
	}
	n, _ := t.(*types.Named)
	return n
}

// findField searches a struct (through embedded fields) for a field by name regardless of package.
func findField(t types.Type, name string) ([]int, types.Type) {
	if p, ok := t.Underlying().(*types.Pointer); ok {
		t = p.Elem()
	}
	st, ok := t.Underlying().(*types.Struct)
	if !ok {
		return nil, nil
	}
	for i := 0; i < st.NumFields(); i++ {
		if st.Field(i).Name() == name {
			return []int{i}, st.Field(i).Type()
		}
	}
	for i := 0; i < st.NumFields(); i++ {
		if st.Field(i).Embedded() {
			if idx, ft := findField(st.Field(i).Type(), name); idx != nil {
				return append([]int{i}, idx...), ft
			}
		}
	}
	return nil, nil
}

func (e *Env) trSel(x *ESel) (Term, Ty) {
	g := e.g
	// package qualifier?
	if id, ok := x.X.(*EIdent); ok {
		if _, shadow := e.vars[id.Name]; !shadow {
			isLocal := false
			if e.resolve != nil {
				if _, _, ok := e.resolve(id.Name, e.st); ok {
					isLocal = true
				}
			}
			if !isLocal {
				if p := g.W.byPath[e.pkg]; p == nil || p.Types.Scope().Lookup(id.Name) == nil {
					if pk, err := g.W.pkgByName(e.pkg, id.Name); err == nil {
						obj := pk.Types.Scope().Lookup(x.Sel)
						if obj == nil {
							g.fail("%s.%s not found", id.Name, x.Sel)
						}
						sub := *e
						sub.pkg = pk.PkgPath
						return sub.trObject(obj)
					}
				}
			}
		}
	}
	if !strings.HasPrefix(x.Sel, "$") {
		if _, isSel := x.X.(*ESel); isSel {
			if a, ft, ok := e.tryAddrOf(x); ok {
				return g.load(e.st, a, ft), goTy(ft)
			}
		}
	}
	base, bty := e.tr(x.X)
	if strings.HasPrefix(x.Sel, "$") {
		key, es, gf := g.ghostField(x.Sel)
		a := e.ghostBase(base, x.X, x.Sel)
		h := g.heap(e.st, key, es)
		return Term{sel(h.S, a), es}, g.W.resolveType(gf.Pkg, gf.Type, g)
	}
	if bty.G == nil {
		g.fail("selector .%s on non-Go value %s", x.Sel, x.X)
	}
	cur, ft, isAddr := e.fieldPath(base, bty.G, x.Sel, false)
	if isAddr {
		return g.load(e.st, cur, ft), goTy(ft)
	}
	return Term{cur, g.sortOf(ft)}, goTy(ft)
}

func (e *Env) trIndex(x *EIndex) (Term, Ty) {
	g := e.g
	s, ty := e.tr(x.X)
	i, _ := e.tr(x.I)
	if ty.G != nil {
		switch u := ty.G.Underlying().(type) {
		case *types.Slice:
			a := fmt.Sprintf("(Elem (sarr %s) (+ (soff %s) %s))", s.S, s.S, i.S)
			if id, ok := x.I.(*EIdent); ok {
				if ri, ok := e.reidx[id.Name]; ok && ri.slice == x.X.String() {
					a = fmt.Sprintf("(Elem (sarr %s) %s)", s.S, ri.k)
				}
			}
			return g.load(e.st, a, u.Elem()), goTy(u.Elem())
		case *types.Array:
			return Term{sel(s.S, i.S), g.sortOf(u.Elem())}, goTy(u.Elem())
		case *types.Map:
			mv := g.mapHeaps(u)
			h := g.heap(e.st, mv.valKey, mv.valSort)
			return Term{sel(sel(h.S, s.S), i.S), g.sortOf(u.Elem())}, goTy(u.Elem())
		case *types.Pointer:
			if arr, ok := u.Elem().Underlying().(*types.Array); ok {
				if _, leaf := isLeafArray(u.Elem()); leaf {
					whole := g.loadLeaf(e.st, s.S, u.Elem())
					return Term{sel(whole.S, i.S), g.sortOf(arr.Elem())}, goTy(arr.Elem())
				}
				return g.load(e.st, fmt.Sprintf("(Elem %s %s)", s.S, i.S), arr.Elem()), goTy(arr.Elem())
			}
		case *types.Basic:
			if u.Info()&types.IsString != 0 {
				g.sc.DeclareOnce("strat", "(declare-fun strat (Str Int) Int)")
				return Term{app("strat", s.S, i.S), SInt}, goTy(types.Typ[types.Byte])
			}
		}
	}
	if strings.HasPrefix(s.Sort, "(Array ") {
		es := arrayElemSort(s.Sort)
		if ty.Elem != nil {
			return Term{sel(s.S, i.S), es}, *ty.Elem
		}
		return Term{sel(s.S, i.S), es}, Ty{Spec: es}
	}
	g.fail("cannot index %s (type %s)", x.X, ty)
	return Term{}, Ty{}
}

// arrayElemSort returns the element sort of "(Array K V)".
func arrayElemSort(s string) string {
	inner := s[len("(Array ") : len(s)-1]
	// skip first sort
	depth := 0
	for i := 0; i < len(inner); i++ {
		switch inner[i] {
		case '(':
			depth++
		case ')':
			depth--
		case ' ':
			if depth == 0 {
				return inner[i+1:]
			}
		}
	}
	return ""
}

func arrayKeySort(s string) string {
	inner := s[len("(Array ") : len(s)-1]
	depth := 0
	for i := 0; i < len(inner); i++ {
		switch inner[i] {
		case '(':
			depth++
		case ')':
			depth--
		case ' ':
			if depth == 0 {
				return inner[:i]
			}
		}
	}
	return ""
}

func (e *Env) trBin(x *EBin) (Term, Ty) {
	g := e.g
	switch x.Op {
	case "&&":
		return Term{and(e.trBool(x.X), e.trBool(x.Y)), SBool}, specBool
	case "||":
		return Term{or(e.trBool(x.X), e.trBool(x.Y)), SBool}, specBool
	case "==>":
		return Term{implies(e.trBool(x.X), e.trBool(x.Y)), SBool}, specBool
	case "<==>":
		return Term{eq(e.trBool(x.X), e.trBool(x.Y)), SBool}, specBool
	}
	a, ta := e.tr(x.X)
	b, tb := e.tr(x.Y)
	switch x.Op {
	case "==", "!=":
		var f string
		if a.Sort == "nil" && b.Sort == SSlice {
			f = "(= (sarr " + b.S + ") Nil)"
		} else if b.Sort == "nil" && a.Sort == SSlice {
			f = "(= (sarr " + a.S + ") Nil)"
		} else {
			a, b = e.unifyNil(a, b)
			if a.Sort != b.Sort {
				g.fail("comparison of different sorts %s (%s) vs %s (%s) in %s", a.S, a.Sort, b.S, b.Sort, x)
			}
			f = eq(a.S, b.S)
		}
		if x.Op == "!=" {
			f = not(f)
		}
		return Term{f, SBool}, specBool
	case "<", "<=", ">", ">=":
		return Term{"(" + x.Op + " " + a.S + " " + b.S + ")", SBool}, specBool
	}
	rt := ta
	if ta.G == nil || tb.G == nil {
		rt = mathInt
		if a.Sort == SReal {
			rt = Ty{Spec: SReal}
		}
	}
	switch x.Op {
	case "+":
		if a.Sort == SStr {
			return Term{app("strcat", a.S, b.S), SStr}, ta
		}
		return Term{"(+ " + a.S + " " + b.S + ")", a.Sort}, rt
	case "-":
		return Term{"(- " + a.S + " " + b.S + ")", a.Sort}, rt
	case "*":
		return Term{"(* " + a.S + " " + b.S + ")", a.Sort}, rt
	case "/":
		if a.Sort == SReal {
			return Term{"(/ " + a.S + " " + b.S + ")", a.Sort}, rt
		}
		return Term{"(div " + a.S + " " + b.S + ")", a.Sort}, rt
	case "%":
		return Term{"(mod " + a.S + " " + b.S + ")", a.Sort}, rt
	case "&":
		return Term{app("bitand", a.S, b.S), SInt}, rt
	case "|":
		return Term{app("bitor", a.S, b.S), SInt}, rt
	}
	g.fail("unsupported spec operator %s", x.Op)
	return Term{}, Ty{}
}

func (e *Env) trQuant(x *EQuant) (Term, Ty) {
	g := e.g
	sub := e
	var decls []string
	var autoPats []string
	var ranges []string
	for _, v := range x.Vars {
		ty := g.W.resolveType(e.pkg, v.Type, g)
		s := g.tySort(ty)
		nm := "q_" + clean(v.Name)
		decls = append(decls, "("+nm+" "+s+")")
		sub = sub.with(v.Name, Binding{Term{nm, s}, ty})
		var trigSlice Expr
		if len(x.Trig) == 1 && len(x.Trig[0]) == 1 {
			if ix, ok := x.Trig[0][0].(*EIndex); ok {
				if id, ok := ix.I.(*EIdent); ok && id.Name == v.Name {
					trigSlice = ix.X
				}
			}
		}
		if s == SInt && (len(x.Trig) == 0 || trigSlice != nil) {
			// re-index: if v is used as the direct index of exactly one slice expression, quantify over the
			// absolute index of its backing array so that the trigger is arithmetic-free
			sl := trigSlice
			if sl == nil {
				sl = soleIndexedSlice(x.Body, v.Name)
			}
			if sl != nil && !mentions(sl, boundNames(x)) {
				if st, sty := sub.tr(sl); st.Sort == SSlice && sty.G != nil {
					n2 := *sub
					n2.reidx = map[string]reidxInfo{}
					for k2, v2 := range sub.reidx {
						n2.reidx[k2] = v2
					}
					n2.reidx[v.Name] = reidxInfo{slice: sl.String(), k: nm}
					n2.vars = map[string]Binding{}
					for k2, v2 := range sub.vars {
						n2.vars[k2] = v2
					}
					n2.vars[v.Name] = Binding{Term{"(- " + nm + " (soff " + st.S + "))", SInt}, ty}
					sub = &n2
					arr := "(sarr " + st.S + ")"
					if os.Getenv("GOWP_NOQARR") == "" && g.sc.patternUnsafe(st.S) {
						if mentionsBound(st.S) {
							// the slice depends on a variable bound by an enclosing quantifier: it cannot be named
							// outside; leave the pattern to the solver
							arr = ""
						} else {
							// a merged (ite) slice value cannot appear in a pattern: name its backing array
							arr = g.constFor("qarr", Term{arr, SRef}).S
						}
					}
					if arr != "" {
						autoPats = append(autoPats, "(Elem "+arr+" "+nm+")")
					}
				}
			}
		}
	}
	for _, v := range x.Vars {
		// a bound variable of a Go integer type ranges over that type only
		if b := sub.vars[v.Name]; b.Ty.G != nil && isIntType(b.Ty.G) {
			if inv := g.typeInv(b.T.S, b.Ty.G); inv != "true" && inv != "" {
				ranges = append(ranges, inv)
			}
		}
	}
	body := sub.trBool(x.Body)
	if len(ranges) > 0 {
		rg := ranges[0]
		if len(ranges) > 1 {
			rg = "(and " + strings.Join(ranges, " ") + ")"
		}
		if x.Forall {
			body = "(=> " + rg + " " + body + ")"
		} else {
			body = "(and " + rg + " " + body + ")"
		}
	}
	pat := ""
	for _, ts := range x.Trig {
		if len(autoPats) > 0 {
			break // the trigger named the slice to re-index over
		}
		var ps []string
		unsafe := false
		for _, t := range ts {
			tt, _ := sub.tr(t)
			ps = append(ps, tt.S)
			unsafe = unsafe || g.sc.patternUnsafe(tt.S)
		}
		if unsafe {
			continue // a merged (ite) heap in the trigger: leave pattern selection to the solver
		}
		pat += " :pattern (" + strings.Join(ps, " ") + ")"
	}
	if pat == "" && len(autoPats) == len(x.Vars) && len(autoPats) > 0 {
		pat = " :pattern (" + strings.Join(autoPats, " ") + ")"
	}
	if pat != "" {
		body = "(! " + body + pat + ")"
	}
	q := "forall"
	if !x.Forall {
		q = "exists"
	}
	return Term{"(" + q + " (" + strings.Join(decls, " ") + ") " + body + ")", SBool}, specBool
}

func boundNames(x *EQuant) map[string]bool {
	m := map[string]bool{}
	for _, v := range x.Vars {
		m[v.Name] = true
	}
	return m
}

func mentions(e Expr, names map[string]bool) bool {
	for _, n := range exprIdents(e) {
		if names[n] {
			return true
		}
	}
	return false
}

// soleIndexedSlice returns the slice expression s if every direct use "s[v]" of v as an index is on the same s
// (and there is at least one); nil otherwise.
func soleIndexedSlice(body Expr, v string) Expr {
	var found Expr
	ok := true
	var walk func(Expr)
	walk = func(e Expr) {
		switch e := e.(type) {
		case nil:
		case *EIndex:
			if id, isId := e.I.(*EIdent); isId && id.Name == v {
				if found == nil {
					found = e.X
				} else if found.String() != e.X.String() {
					ok = false
				}
				walk(e.X)
				return
			}
			walk(e.X)
			walk(e.I)
		case *ESel:
			walk(e.X)
		case *ESlice:
			walk(e.X)
			walk(e.Lo)
			walk(e.Hi)
		case *ECall:
			for _, a := range e.Args {
				walk(a)
			}
		case *EUnary:
			walk(e.X)
		case *EBin:
			walk(e.X)
			walk(e.Y)
		case *EQuant:
			walk(e.Body)
		case *EOld:
			walk(e.X)
		case *ECond:
			walk(e.C)
			walk(e.T)
			walk(e.F)
		}
	}
	walk(body)
	if !ok {
		return nil
	}
	return found
}

func (e *Env) expandDefine(d *DefineSpec, args []Expr) (Term, Ty) {
	g := e.g
	if e.macroDepth > 20 {
		g.fail("define expansion too deep at %s", d.Name)
	}
	if len(args) != len(d.Params) {
		g.fail("define %s expects %d args", d.Name, len(d.Params))
	}
	// evaluate args in the caller env, bind as variables (typed by declaration)
	sub := *e
	sub.macroDepth++
	sub.vars = map[string]Binding{}
	// defines see only their parameters (plus globals of their package)
	sub.resolve = nil
	sub.pkg = d.Pkg
	if sub.pkg == "" {
		sub.pkg = e.pkg
	}
	for i, p := range d.Params {
		t, ty := e.tr(args[i])
		dty := g.W.resolveType(sub.pkg, p.Type, g)
		if t.Sort == "nil" {
			switch g.tySort(dty) {
			case SIface:
				t = Term{"nilIface", SIface}
			case SSlice:
				t = Term{"nilSlice", SSlice}
			default:
				t = Term{"Nil", SRef}
			}
		}
		_ = ty
		sub.vars[p.Name] = Binding{t, dty}
	}
	return sub.tr(d.Body)
}

func (e *Env) applyAbstract(a *AbstractSpec, args []Expr) (Term, Ty) {
	g := e.g
	rt := g.W.resolveType(a.Pkg, a.Result, g)
	rs := g.tySort(rt)
	g.declareAbstract(a)
	if len(args) != len(a.Params) {
		g.fail("abstract %s expects %d args, got %d", a.Name, len(a.Params), len(args))
	}
	var as []string
	for i, x := range args {
		t, _ := e.tr(x)
		if t.Sort == "nil" {
			switch g.tySort(g.W.resolveType(a.Pkg, a.Params[i], g)) {
			case SIface:
				t = Term{"nilIface", SIface}
			case SSlice:
				t = Term{"nilSlice", SSlice}
			default:
				t = Term{"Nil", SRef}
			}
		}
		as = append(as, t.S)
	}
	return Term{app(a.Name, as...), rs}, rt
}

// emitAxiomsMentioning emits every axiom that mentions the abstract function name; the other abstract
// functions such an axiom mentions are declared on demand.
func (g *Gen) emitAxiomsMentioning(name string) {
	for i, ax := range g.W.axioms {
		key := fmt.Sprintf("axiom:%d", i)
		if g.sc.declared[key] {
			continue
		}
		ids := exprIdents(ax.C.E)
		mentions := false
		for _, n := range ids {
			if n == name {
				mentions = true
			}
		}
		if !mentions {
			continue
		}
		// only pull in abstract functions whose types can be resolved with the loaded packages
		ok := true
		for _, n := range ids {
			if a, isAbs := g.W.abstracts[n]; isAbs && !g.absDecl[n] && !g.resolvable(a) {
				ok = false
			}
		}
		if !ok {
			continue
		}
		g.sc.declared[key] = true
		for _, n := range ids {
			if a, isAbs := g.W.abstracts[n]; isAbs && !g.absDecl[n] {
				g.declareAbstract(a)
			}
		}
		env := &Env{g: g, pkg: ax.Pkg, vars: map[string]Binding{}, st: &State{heaps: map[string]Term{}}}
		f := env.trBool(ax.C.E)
		g.sc.Decl("; axiom " + ax.C.Label)
		g.sc.Decl("(assert " + f + ")")
	}
}

// resolvable reports whether the parameter and result types of an abstract function can be resolved.
func (g *Gen) resolvable(a *AbstractSpec) (ok bool) {
	defer func() {
		if r := recover(); r != nil {
			if _, is := r.(unsupported); is {
				ok = false
				return
			}
			panic(r)
		}
	}()
	g.W.resolveType(a.Pkg, a.Result, g)
	for _, p := range a.Params {
		g.W.resolveType(a.Pkg, p, g)
	}
	return true
}

func (g *Gen) declareAbstract(a *AbstractSpec) {
	if g.absDecl[a.Name] {
		return
	}
	g.absDecl[a.Name] = true
	rt := g.W.resolveType(a.Pkg, a.Result, g)
	rs := g.tySort(rt)
	var ps []string
	for _, p := range a.Params {
		ps = append(ps, g.tySort(g.W.resolveType(a.Pkg, p, g)))
	}
	g.sc.Decl(fmt.Sprintf("(declare-fun %s (%s) %s)", a.Name, strings.Join(ps, " "), rs))
	g.emitAxiomsMentioning(a.Name)
}

// exprIdents returns identifiers called or referenced in e.
func exprIdents(e Expr) []string {
	var out []string
	var walk func(Expr)
	walk = func(e Expr) {
		switch e := e.(type) {
		case nil:
		case *EIdent:
			out = append(out, e.Name)
		case *ESel:
			walk(e.X)
		case *EIndex:
			walk(e.X)
			walk(e.I)
		case *ESlice:
			walk(e.X)
			walk(e.Lo)
			walk(e.Hi)
		case *ECall:
			walk(e.Fun)
			for _, a := range e.Args {
				walk(a)
			}
		case *EUnary:
			walk(e.X)
		case *EBin:
			walk(e.X)
			walk(e.Y)
		case *EQuant:
			walk(e.Body)
			for _, ts := range e.Trig {
				for _, t := range ts {
					walk(t)
				}
			}
		case *EOld:
			walk(e.X)
		case *ECond:
			walk(e.C)
			walk(e.T)
			walk(e.F)
		}
	}
	walk(e)
	return out
}

func (e *Env) trCall(x *ECall) (Term, Ty) {
	g := e.g
	name := ""
	if id, ok := x.Fun.(*EIdent); ok {
		name = id.Name
	}
	arg := func(i int) (Term, Ty) {
		if i >= len(x.Args) {
			g.fail("%s: missing argument %d", x, i)
		}
		return e.tr(x.Args[i])
	}
	switch name {
	case "len":
		t, ty := arg(0)
		switch t.Sort {
		case SSlice:
			return Term{"(slen " + t.S + ")", SInt}, mathInt
		case SStr:
			return Term{"(strlen " + t.S + ")", SInt}, mathInt
		case SRef:
			if m, ok := ty.G.Underlying().(*types.Map); ok {
				mv := g.mapHeaps(m)
				h := g.heap(e.st, mv.cardKey, SInt)
				return Term{sel(h.S, t.S), SInt}, mathInt
			}
			if _, ok := ty.G.Underlying().(*types.Chan); ok {
				key, es, _ := g.ghostField("$chlen")
				h := g.heap(e.st, key, es)
				return Term{sel(h.S, t.S), SInt}, mathInt
			}
		}
		if ty.G != nil {
			if a, ok := ty.G.Underlying().(*types.Array); ok {
				return Term{fmt.Sprint(a.Len()), SInt}, mathInt
			}
		}
		g.fail("len of %s", x.Args[0])
	case "cap":
		t, _ := arg(0)
		if t.Sort == SSlice {
			return Term{"(scap " + t.S + ")", SInt}, mathInt
		}
		g.fail("cap of %s", x.Args[0])
	case "has":
		// has(m, k): key k is in Go map m, or in spec set
		m, ty := arg(0)
		k, _ := arg(1)
		if ty.G != nil {
			if mt, ok := ty.G.Underlying().(*types.Map); ok {
				mv := g.mapHeaps(mt)
				h := g.heap(e.st, mv.domKey, mv.domSort)
				return Term{sel(sel(h.S, m.S), k.S), SBool}, specBool
			}
		}
		if strings.HasPrefix(m.Sort, "(Array ") {
			return Term{sel(m.S, k.S), SBool}, specBool
		}
		g.fail("has() on %s", x.Args[0])
	case "mapdom", "mapval":
		m, ty := arg(0)
		mt, ok := ty.G.Underlying().(*types.Map)
		if !ok {
			g.fail("%s of non-map", name)
		}
		mv := g.mapHeaps(mt)
		if name == "mapdom" {
			h := g.heap(e.st, mv.domKey, mv.domSort)
			return Term{sel(h.S, m.S), mv.domSort}, Ty{Spec: mv.domSort}
		}
		h := g.heap(e.st, mv.valKey, mv.valSort)
		return Term{sel(h.S, m.S), mv.valSort}, Ty{Spec: mv.valSort}
	case "bytes":
		// abstract content of a byte slice in the current heap
		s, _ := arg(0)
		g.declSort("Bytes")
		g.declBytesOf()
		h := g.heap(e.st, g.heapKeyT(types.Typ[types.Uint8]), SInt)
		return Term{app("bytesOf", h.S, s.S), "Bytes"}, Ty{Spec: "Bytes"}
	case "typeis":
		v, _ := arg(0)
		tl, ok := x.Args[1].(*ETypeLit)
		if !ok {
			g.fail("typeis needs type(T)")
		}
		ty := g.W.resolveType(e.pkg, tl.T, g)
		return Term{fmt.Sprintf("(= (itag %s) %d)", v.S, g.tagOf(ty.G)), SBool}, specBool
	case "unbox":
		// unbox(v, type(T)): the dynamic value of interface v as T
		v, _ := arg(0)
		tl, ok := x.Args[1].(*ETypeLit)
		if !ok {
			g.fail("unbox needs type(T)")
		}
		ty := g.W.resolveType(e.pkg, tl.T, g)
		if g.sortOf(ty.G) == SRef {
			return Term{"(iref " + v.S + ")", SRef}, ty
		}
		return g.load(e.st, "(iref "+v.S+")", ty.G), ty
	case "iref":
		v, _ := arg(0)
		return Term{"(iref " + v.S + ")", SRef}, Ty{Spec: SRef}
	case "fresh":
		v, _ := arg(0)
		var r string
		switch v.Sort {
		case SRef:
			r = v.S
		case SSlice:
			r = "(sarr " + v.S + ")"
		case SIface:
			r = "(iref " + v.S + ")"
		default:
			g.fail("fresh() of sort %s", v.Sort)
		}
		floor := e.freshFloor
		if floor == "" {
			floor = "allocBase"
		}
		return Term{"(> (rootOid " + r + ") " + floor + ")", SBool}, specBool
	case "arrof":
		// backing array of a slice (to state that two slices do not share storage)
		v, _ := arg(0)
		if v.Sort != SSlice {
			g.fail("arrof() of sort %s", v.Sort)
		}
		return Term{"(sarr " + v.S + ")", SRef}, Ty{Spec: SRef}
	case "isobj":
		v, _ := arg(0)
		return Term{"((_ is Obj) " + v.S + ")", SBool}, specBool
	case "infield":
		// infield(p): p points at a field of a whole heap object (not at, or into, a slice or array element)
		v, _ := arg(0)
		return Term{"(and ((_ is Fld) " + v.S + ") ((_ is Obj) (fbase " + v.S + ")))", SBool}, specBool
	case "min":
		a, ta := arg(0)
		b, _ := arg(1)
		return Term{ite("(<= "+a.S+" "+b.S+")", a.S, b.S), SInt}, ta
	case "max":
		a, ta := arg(0)
		b, _ := arg(1)
		return Term{ite("(>= "+a.S+" "+b.S+")", a.S, b.S), SInt}, ta
	case "setadd":
		s, ty := arg(0)
		k, _ := arg(1)
		return Term{sto(s.S, k.S, "true"), s.Sort}, ty
	case "setdel":
		s, ty := arg(0)
		k, _ := arg(1)
		return Term{sto(s.S, k.S, "false"), s.Sort}, ty
	case "update":
		s, ty := arg(0)
		k, _ := arg(1)
		v, _ := arg(2)
		return Term{sto(s.S, k.S, v.S), s.Sort}, ty
	case "zero":
		tl, ok := x.Args[0].(*ETypeLit)
		if !ok {
			g.fail("zero needs type(T)")
		}
		ty := g.W.resolveType(e.pkg, tl.T, g)
		return g.zero(ty.G), ty
	case "emptyset":
		tl, ok := x.Args[0].(*ETypeLit)
		if !ok {
			g.fail("emptyset needs type(T)")
		}
		ty := g.W.resolveType(e.pkg, tl.T, g)
		s := arraySort(g.tySort(ty), SBool)
		return Term{"((as const " + s + ") false)", s}, Ty{Spec: s}
	}
	// conversions to basic Go types / Int
	if name != "" {
		if obj, ok := types.Universe.Lookup(name).(*types.TypeName); ok && len(x.Args) == 1 {
			t, _ := arg(0)
			if b, ok := obj.Type().Underlying().(*types.Basic); ok && b.Info()&types.IsInteger != 0 {
				if t.Sort == SReal {
					return Term{wrapInt("(to_int "+t.S+")", b), SInt}, goTy(obj.Type())
				}
				return Term{wrapInt(t.S, b), SInt}, goTy(obj.Type())
			}
			if b, ok := obj.Type().Underlying().(*types.Basic); ok && b.Info()&types.IsFloat != 0 {
				if t.Sort == SInt {
					return Term{"(to_real " + t.S + ")", SReal}, goTy(obj.Type())
				}
				return t, goTy(obj.Type())
			}
		}
		if name == "Int" && len(x.Args) == 1 {
			t, _ := arg(0)
			return t, mathInt
		}
		if d, ok := g.W.defines[name]; ok {
			return e.expandDefine(d, x.Args)
		}
		if a, ok := g.W.abstracts[name]; ok {
			return e.applyAbstract(a, x.Args)
		}
	}
	// conversion to a named type: T(x)
	if len(x.Args) == 1 {
		if ts := typeTextOf(x.Fun); ts != "" {
			if ty, ok := e.tryResolveType(ts); ok && ty.G != nil {
				t, _ := arg(0)
				if isIntType(ty.G) && t.Sort == SInt {
					return Term{wrapInt(t.S, basicOf(ty.G)), SInt}, ty
				}
				if g.sortOf(ty.G) == t.Sort {
					return t, ty
				}
			}
		}
	}
	g.fail("unknown function %s in spec", x.Fun)
	return Term{}, Ty{}
}

func (e *Env) tryResolveType(ts string) (ty Ty, ok bool) {
	defer func() {
		if r := recover(); r != nil {
			if _, is := r.(unsupported); is {
				ok = false
				return
			}
			panic(r)
		}
	}()
	return e.g.W.resolveType(e.pkg, ts, e.g), true
}

func typeTextOf(e Expr) string {
	switch e := e.(type) {
	case *EIdent:
		return e.Name
	case *ESel:
		if id, ok := e.X.(*EIdent); ok {
			return id.Name + "." + e.Sel
		}
	}
	return ""
}

// ghostBase returns the reference a ghost field of value base (spec expression x) is attached to.
func (e *Env) ghostBase(base Term, x Expr, sel string) string {
	switch base.Sort {
	case SRef:
		return base.S
	case SIface:
		return "(iref " + base.S + ")"
	case SSlice:
		return "(sarr " + base.S + ")"
	}
	// a struct value held in an addressable cell (e.g. a sync.Mutex field): use its address
	a, _ := e.addrOf(x)
	return a
}

// tryAddrOf is addrOf that reports failure instead of aborting.
func (e *Env) tryAddrOf(x Expr) (a string, t types.Type, ok bool) {
	defer func() {
		if r := recover(); r != nil {
			if _, is := r.(unsupported); is {
				ok = false
				return
			}
			panic(r)
		}
	}()
	a, t = e.addrOf(x)
	return a, t, t != nil
}

// mentionsBound reports whether an SMT term mentions a quantifier-bound variable (they are all named q_<name>).
func mentionsBound(t string) bool {
	for _, tk := range strings.Fields(strings.NewReplacer("(", " ", ")", " ").Replace(t)) {
		if strings.HasPrefix(tk, "q_") {
			return true
		}
	}
	return false
}

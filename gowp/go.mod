module gowp

go 1.26.8

require golang.org/x/tools v0.50.0

package main

import (
	"encoding/json"
	"flag"
	"fmt"
	"os"
	"path/filepath"
	"regexp"
	"sort"
	"strconv"
	"strings"
	"time"
)

// PropSpec describes how one property is checked (from /verif/props.json).
type PropSpec struct {
	ID         string        `json:"id"`
	Dir        string        `json:"dir"`   // module directory
	Pkgs       []string      `json:"pkgs"`  // package patterns
	Level      string        `json:"level"` // proof | other
	Notes      []string      `json:"notes"` // assumptions printed into the evidence
	NotCovered []string      `json:"not_covered"`
	Bounded    []BoundedSpec `json:"bounded"`
}

type BoundedSpec struct {
	Name     string `json:"name"`
	Dir      string `json:"dir"`
	Pkg      string `json:"pkg"`
	Test     string `json:"test"` // test file under /verif/bounded/
	Run      string `json:"run"`
	Bound    string `json:"bound"`
	Thorough string `json:"thorough_env"`
}

type LedgerEntry struct {
	Status string `json:"status"` // discharged | undecided
	Ms     int64  `json:"ms"`
}

type Ledger struct {
	Obligations map[string]LedgerEntry `json:"obligations"` // logical name -> entry
	Functions   map[string][]string    `json:"functions"`   // property -> function keys verified
}

type KnownFinding struct {
	Kind       string `json:"kind"` // finding | fixed
	Property   string `json:"property"`
	Obligation string `json:"obligation"` // logical obligation name
	Witness    string `json:"witness"`
	Commit     string `json:"commit,omitempty"`
	Text       string `json:"text,omitempty"`
}

var (
	reRet    = regexp.MustCompile(`@ret\d+`)
	reBlk    = regexp.MustCompile(`@b\d+`)
	reOrd    = regexp.MustCompile(`#\d+`)
	reSafety = regexp.MustCompile(`(/safety/[a-z]+)@\d+$`)
	reInl    = regexp.MustCompile(`_\d+_:`)
	reInl2   = regexp.MustCompile(`_\d+_`)
)

// logicalName strips position-dependent indices so that names are stable under harmless edits.
func logicalName(n string) string {
	n = reRet.ReplaceAllString(n, "")
	n = reBlk.ReplaceAllString(n, "")
	n = reOrd.ReplaceAllString(n, "")
	n = reSafety.ReplaceAllString(n, "$1")
	n = reInl.ReplaceAllString(n, "_:")
	// inlined prefixes inside safety/pre names
	parts := strings.Split(n, "/")
	for i, p := range parts {
		if i > 0 && strings.Contains(p, ":") {
			parts[i] = reInl2.ReplaceAllString(p, "_")
		}
	}
	return strings.Join(parts, "/")
}

type logicalResult struct {
	Name    string
	Func    string
	Kind    string
	Side    bool
	Status  string // discharged | failed | unknown
	Queries int
	Ms      int64
	Solvers map[string]int
	Failing []*Verdict
	Src     string
}

type funcResult struct {
	Key      string
	Pos      string
	Blocks   int
	ToolErr  string
	Logical  map[string]*logicalResult
	Covers   int
	Vacuous  []string
	Assumed  []string
	Inlined  []string
	GenMs    int64
	Queries  int
	SmtBytes int
}

func loadJSON(path string, v any) error {
	b, err := os.ReadFile(path)
	if err != nil {
		return err
	}
	return json.Unmarshal(b, v)
}

const verifRoot = "/verif"

func cmdCheck(args []string) {
	fs := flag.NewFlagSet("check", flag.ExitOnError)
	tier := fs.String("tier", "quick", "quick|thorough")
	accept := fs.Bool("accept-ledger", false, "record the current results as the baseline ledger for this property")
	replay := fs.String("replay", "", "print a replay file")
	verbose := fs.Bool("v", false, "verbose")
	overlayF := fs.String("overlay", "", "JSON file {path: replacement-file} applied as source overlay (self-test)")
	noEvidence := fs.Bool("no-evidence", false, "do not write the evidence file (self-test runs)")
	fs.Parse(args)
	if *replay != "" {
		b, err := os.ReadFile(*replay)
		if err != nil {
			fmt.Fprintln(os.Stderr, err)
			os.Exit(2)
		}
		os.Stdout.Write(b)
		return
	}
	if fs.NArg() < 1 {
		fmt.Fprintln(os.Stderr, "usage: gowp check [--tier quick|thorough] <property id>")
		os.Exit(2)
	}
	id := fs.Arg(0)
	if t := os.Getenv("VERIF_TIER"); t != "" && !flagSet(fs, "tier") {
		*tier = t
	}
	seed := 0
	if s := os.Getenv("VERIF_SEED"); s != "" {
		seed, _ = strconv.Atoi(s)
	}
	var props []PropSpec
	if err := loadJSON(filepath.Join(verifRoot, "props.json"), &props); err != nil {
		fmt.Fprintln(os.Stderr, "props.json:", err)
		os.Exit(2)
	}
	var spec *PropSpec
	for i := range props {
		if props[i].ID == id {
			spec = &props[i]
		}
	}
	if spec == nil {
		fmt.Fprintf(os.Stderr, "property %s is not claimed\n", id)
		os.Exit(2)
	}
	var overlay map[string][]byte
	if *overlayF != "" {
		var m map[string]string
		if err := loadJSON(*overlayF, &m); err != nil {
			fmt.Fprintln(os.Stderr, "overlay:", err)
			os.Exit(2)
		}
		overlay = map[string][]byte{}
		for k, v := range m {
			b, err := os.ReadFile(v)
			if err != nil {
				fmt.Fprintln(os.Stderr, "overlay:", err)
				os.Exit(2)
			}
			overlay[k] = b
		}
	}
	code := runCheck(spec, *tier, seed, *accept, *verbose, overlay, *noEvidence)
	os.Exit(code)
}

func flagSet(fs *flag.FlagSet, name string) bool {
	set := false
	fs.Visit(func(f *flag.Flag) {
		if f.Name == name {
			set = true
		}
	})
	return set
}

func runCheck(spec *PropSpec, tier string, seed int, accept, verbose bool, overlay map[string][]byte, noEvidence bool) int {
	t0 := time.Now()
	id := spec.ID
	timeout := 10000
	if tier == "thorough" {
		timeout = 30000
	}
	w, err := LoadWorld(spec.Dir, spec.Pkgs, filepath.Join(verifRoot, "contracts/ext"), overlay)
	if err != nil {
		fmt.Printf("CHECK-BROKEN property=%s cannot load packages: %v\n", id, err)
		return 2
	}
	if len(w.protoErrs) > 0 {
		for _, e := range w.protoErrs {
			fmt.Printf("CHECK-BROKEN property=%s close-only channel discipline no longer holds syntactically: %s\n", id, e)
		}
		return 2
	}
	// a contract on a repository function with a body that is neither assumed, nor inlined, nor verified by any
	// check would be used at call sites without ever being proved
	for k, fc := range w.contracts {
		if !fc.Extern && !fc.AssumeOnly && !fc.Inline && len(fc.Props) == 0 && strings.Contains(k, "github.com/lightninglabs/neutrino") {
			if fn := w.lookupFunc(k); fn != nil && len(fn.Blocks) > 0 {
				fmt.Printf("CHECK-BROKEN property=%s contract of %s serves no property (props), is not assume-only and not inline: it would be used unproved\n", id, k)
				return 2
			}
		}
	}
	loadS := time.Since(t0).Seconds()
	// functions serving this property
	var keys []string
	for k, fc := range w.contracts {
		if fc.Extern || (fc.AssumeOnly && !fc.SingleTx && !(fc.CallsArg > 0 && len(fc.Props) > 0)) || fc.Inline {
			continue
		}
		for _, p := range fc.Props {
			if p == id {
				keys = append(keys, k)
			}
		}
	}
	sort.Strings(keys)
	var ledger Ledger
	_ = loadJSON(filepath.Join(verifRoot, "ledger.json"), &ledger)
	if ledger.Obligations == nil {
		ledger.Obligations = map[string]LedgerEntry{}
	}
	if ledger.Functions == nil {
		ledger.Functions = map[string][]string{}
	}
	var known []KnownFinding
	_ = loadJSON(filepath.Join(verifRoot, "known_findings.json"), &known)

	workDir := filepath.Join(verifRoot, "work", id+os.Getenv("GOWP_WORK_SUFFIX")) // the suffix separates parallel self-test runs
	os.RemoveAll(workDir)
	os.MkdirAll(workDir, 0o755)
	var results []*funcResult
	broken := []string{}
	var brokenFuncs []string // functions whose contract no longer binds (tool limit)
	// functions recorded in the ledger must still bind
	have := map[string]bool{}
	for _, k := range keys {
		have[k] = true
	}
	if !accept {
		for _, k := range ledger.Functions[id] {
			if !have[k] {
				broken = append(broken, fmt.Sprintf("function %s is in the ledger but has no contract any more", k))
			}
		}
	}
	assumedAll := map[string]bool{}
	for _, k := range keys {
		fr := &funcResult{Key: k, Logical: map[string]*logicalResult{}}
		results = append(results, fr)
		fn := w.lookupFunc(k)
		if fn == nil {
			fr.ToolErr = "contract does not bind: no such function"
			broken = append(broken, fmt.Sprintf("%s: contract does not bind (function not found)", k))
			continue
		}
		p := w.fset.Position(fn.Pos())
		fr.Pos = fmt.Sprintf("%s:%d", shortPath(p.Filename), p.Line)
		fr.Blocks = len(fn.Blocks)
		g := NewGen(w, k)
		tg := time.Now()
		if err := g.VerifyFunction(fn); err != nil {
			fr.ToolErr = err.Error()
			broken = append(broken, fmt.Sprintf("%s: %v", k, err))
			brokenFuncs = append(brokenFuncs, k)
			continue
		}
		fr.GenMs = time.Since(tg).Milliseconds()
		for a := range g.usedAssumed {
			fr.Assumed = append(fr.Assumed, a)
			assumedAll[a] = true
		}
		for a := range g.inlined {
			fr.Inlined = append(fr.Inlined, a)
		}
		sort.Strings(fr.Assumed)
		obls := g.obls
		if tier != "thorough" {
			// quick tier: safety side conditions (nil, index, overflow) are not property obligations; they are
			// discharged in the thorough tier only
			var keep []*Obligation
			for _, o := range obls {
				if !o.Side {
					keep = append(keep, o)
				}
			}
			obls = keep
		}
		// safety side conditions are reported, never claimed: a short limit keeps the thorough tier bounded
		for _, o := range obls {
			if o.Side {
				o.TimeoutMs = 5000
			}
		}
		// obligations recorded as undecided in the ledger are not claimed: give them a short limit only
		for _, o := range obls {
			if e, ok := ledger.Obligations[logicalName(o.Name)]; ok && e.Status == "undecided" && !accept {
				o.TimeoutMs = 1500
			}
		}
		vs := Solve(g, obls, filepath.Join(workDir, clean(lastN(k, 80))), timeout, 6)
		// an obligation the ledger records as discharged that now runs into the time limit is retried once with
		// four times the limit before it can count as a regression (machine load is not a property violation)
		var retry []*Obligation
		var retryIdx []int
		for i, v := range vs {
			if v.Status != "unknown" || v.Obl.Cover || accept || os.Getenv("GOWP_NO_RETRY") != "" {
				continue // (GOWP_NO_RETRY: the seeded-change scripts do not need the flakiness control)
			}
			if e, ok := ledger.Obligations[logicalName(v.Obl.Name)]; ok && e.Status == "discharged" {
				o2 := *v.Obl
				o2.TimeoutMs = 4 * timeout
				retry = append(retry, &o2)
				retryIdx = append(retryIdx, i)
			}
		}
		if len(retry) > 0 {
			rv := Solve(g, retry, filepath.Join(workDir, clean(lastN(k, 80)), "retry"), 4*timeout, 6)
			for j, v := range rv {
				v.Obl = vs[retryIdx[j]].Obl
				v.Ms += vs[retryIdx[j]].Ms
				vs[retryIdx[j]] = v
			}
		}
		fr.Queries = len(vs)
		if verbose {
			fmt.Printf("  %s: gen %dms, solve wall %dms, %d queries\n", k, fr.GenMs, time.Since(tg).Milliseconds()-fr.GenMs, len(vs))
			for _, v := range vs {
				if v.Ms > 2000 {
					fmt.Printf("     slow %dms %s %s\n", v.Ms, v.Status, v.Obl.Name)
				}
			}
		}
		// retry non-discharged queries once with a longer limit (flakiness control)
		for i, v := range vs {
			if v.Status == "unknown" && !v.Obl.Cover && v.Obl.TimeoutMs == 0 && os.Getenv("GOWP_NO_RETRY") == "" {
				v2 := solveOne(g, v.Obl, filepath.Join(workDir, clean(lastN(k, 80))), timeout*3)
				if v2.Status == "discharged" {
					vs[i] = v2
				}
			}
		}
		coverStatus := map[string]string{}
		for _, v := range vs {
			if v.Obl.Cover {
				coverStatus[v.Obl.Name] = v.Status
			}
		}
		for _, v := range vs {
			if v.Obl.Cover {
				fr.Covers++
				if v.Status == "vacuous" {
					// a point that is unreachable is fine; a point that becomes unreachable by assuming a
					// contract (reachable before the call, not after) means the assumed contract is contradictory
					if strings.HasSuffix(v.Obl.Name, "/after") {
						if coverStatus[strings.TrimSuffix(v.Obl.Name, "/after")+"/before"] == "covered" {
							fr.Vacuous = append(fr.Vacuous, v.Obl.Name)
						}
					} else if strings.HasSuffix(v.Obl.Name, "/cover/requires") {
						fr.Vacuous = append(fr.Vacuous, v.Obl.Name)
					}
				}
				continue
			}
			ln := logicalName(v.Obl.Name)
			lr := fr.Logical[ln]
			if lr == nil {
				lr = &logicalResult{Name: ln, Func: k, Kind: v.Obl.Kind, Side: v.Obl.Side, Status: "discharged", Solvers: map[string]int{}, Src: v.Obl.Src}
				fr.Logical[ln] = lr
			}
			lr.Queries++
			lr.Ms += v.Ms
			lr.Solvers[v.Solver]++
			if v.Status != "discharged" {
				lr.Failing = append(lr.Failing, v)
				if v.Status == "failed" || lr.Status == "discharged" {
					lr.Status = map[string]string{"failed": "failed", "unknown": "unknown", "error": "unknown"}[v.Status]
				}
			}
		}
	}

	// ---- classify ----
	type finding struct {
		lr   *logicalResult
		kind string // violation | known | undecided | side
		kf   *KnownFinding
	}
	var finds []finding
	nObl, nDis := 0, 0
	var undecided, sideFindings, knownOut []string
	bySolver := map[string]int{}
	var solverMs int64
	var samples []map[string]any
	vacuous := []string{}
	covers := 0
	for _, fr := range results {
		covers += fr.Covers
		vacuous = append(vacuous, fr.Vacuous...)
		names := sortedKeys(fr.Logical)
		for _, n := range names {
			lr := fr.Logical[n]
			solverMs += lr.Ms
			for s, c := range lr.Solvers {
				bySolver[s] += c
			}
			var kf *KnownFinding
			for i := range known {
				if known[i].Kind == "finding" && known[i].Property == id && known[i].Obligation == n {
					kf = &known[i]
				}
			}
			base, inLedger := ledger.Obligations[n]
			switch {
			case lr.Status == "discharged":
				if lr.Side {
					continue // side obligations are not counted
				}
				if kf != nil {
					// a listed finding that now discharges: report, do not count as an alarm
					fmt.Printf("NOTE: property=%s known finding %s now discharges (stale entry in known_findings.json)\n", id, n)
				}
				nObl++
				nDis++
				if len(samples) < 6 {
					samples = append(samples, map[string]any{"obligation": n, "kind": lr.Kind, "queries": lr.Queries, "solver_ms": lr.Ms, "clause": lr.Src})
				}
			case kf != nil:
				finds = append(finds, finding{lr, "known", kf})
			case lr.Side:
				finds = append(finds, finding{lr, "side", nil})
			case accept:
				finds = append(finds, finding{lr, "undecided", nil})
			case inLedger && base.Status == "undecided":
				finds = append(finds, finding{lr, "undecided", nil})
			default:
				// discharged in the ledger, or new: a regression
				finds = append(finds, finding{lr, "violation", nil})
			}
		}
	}
	for _, f := range finds {
		switch f.kind {
		case "known":
			knownOut = append(knownOut, f.lr.Name)
		case "undecided":
			undecided = append(undecided, f.lr.Name)
		case "side":
			sideFindings = append(sideFindings, f.lr.Name)
		}
	}

	// ---- bounded stand-ins ----
	var boundedOut []map[string]any
	boundedViol := 0
	for _, b := range spec.Bounded {
		res := runBounded(b, tier, seed)
		boundedOut = append(boundedOut, res)
		if ok, _ := res["ok"].(bool); !ok {
			boundedViol++
			rp := writeReplay(id, "bounded/"+b.Name, map[string]any{"obligation": "bounded/" + b.Name, "kind": "bounded", "bound": b.Bound, "output": res["output"]})
			fmt.Printf("VIOLATION property=%s replay=%s\n", id, rp)
		}
	}

	// ---- thorough tier: every replay harness that belongs to an obligation of this check is run against the real
	// code of the current tree. A harness tied to a repaired defect must pass (the failing input no longer fails); one
	// tied to a listed finding is expected to reproduce it. A harness that fails although its obligations are
	// discharged is a violation found dynamically.
	var replayRuns []map[string]any
	if tier == "thorough" && !accept {
		var hs []HarnessSpec
		if err := loadJSON(filepath.Join(verifRoot, "replay", "harness.json"), &hs); err == nil {
			var names []string
			for _, fr := range results {
				for n := range fr.Logical {
					names = append(names, n)
				}
			}
			sort.Strings(names)
			for _, h := range hs {
				re, err := regexp.Compile(h.Match)
				if err != nil {
					continue
				}
				match := ""
				for _, n := range names {
					if re.MatchString(n) {
						match = n
						break
					}
				}
				if match == "" {
					continue
				}
				expectFail := false
				for _, kf := range known {
					if kf.Kind == "finding" && re.MatchString(kf.Obligation) {
						expectFail = true // a listed finding (of this or another property sharing the function)
					}
				}
				out, passed, err := goTestOverlay(h.Dir, h.Pkg, filepath.Join(verifRoot, "replay", h.Test), h.Run, filepath.Join(verifRoot, "work", id+os.Getenv("GOWP_WORK_SUFFIX")), nil, 300)
				rr := map[string]any{"harness": h.Test, "run": h.Run, "obligation": match, "passed": passed, "expected_to_fail": expectFail}
				if err != nil || strings.Contains(out, "[build failed]") || strings.Contains(out, "[setup failed]") {
					rr["verdict"] = "harness-does-not-run"
					rr["output"] = out
				} else if passed == !expectFail {
					rr["verdict"] = "as-expected"
				} else if !passed && !expectFail {
					rr["verdict"] = "violation-reproduced-on-real-code"
					rr["output"] = out
					boundedViol++
					rp := writeReplay(id, "replay/"+h.Test, map[string]any{"obligation": match, "kind": "replay", "harness": h.Test, "run": h.Run, "output": out})
					fmt.Printf("VIOLATION property=%s replay=%s\n", id, rp)
					fmt.Printf("  replay harness %s (%s) fails on the current tree\n", h.Test, h.Run)
				} else {
					rr["verdict"] = "listed finding not reproduced by its harness"
				}
				replayRuns = append(replayRuns, rr)
			}
		}
	}

	// ---- a function whose contract no longer binds cannot be decided by proof; if a replay harness belongs to one of
	// its recorded obligations, the real code is asked directly: a harness that fails is a violation with a failing
	// input, not merely a broken check
	if !accept && len(brokenFuncs) > 0 {
		var hs []HarnessSpec
		if err := loadJSON(filepath.Join(verifRoot, "replay", "harness.json"), &hs); err == nil {
			ran := map[string]bool{}
			for _, k := range brokenFuncs {
				for n, e := range ledger.Obligations {
					if e.Status != "discharged" || !strings.HasPrefix(n, k+"/") {
						continue
					}
					for _, h := range hs {
						re, err := regexp.Compile(h.Match)
						if err != nil || !re.MatchString(n) || ran[h.Test+h.Run] {
							continue
						}
						ran[h.Test+h.Run] = true
						expectFail := false
						for _, kf := range known {
							if kf.Kind == "finding" && re.MatchString(kf.Obligation) {
								expectFail = true
							}
						}
						out, passed, err := goTestOverlay(h.Dir, h.Pkg, filepath.Join(verifRoot, "replay", h.Test), h.Run, filepath.Join(verifRoot, "work", id+os.Getenv("GOWP_WORK_SUFFIX")), nil, 300)
						if err == nil && !passed && !expectFail && !strings.Contains(out, "[build failed]") && !strings.Contains(out, "[setup failed]") {
							boundedViol++
							rp := writeReplay(id, "replay/"+h.Test, map[string]any{"obligation": n, "kind": "replay", "harness": h.Test, "run": h.Run, "output": out, "note": "the contract of " + k + " no longer binds; the replay harness of this obligation fails on the current tree"})
							fmt.Printf("VIOLATION property=%s replay=%s\n", id, rp)
							fmt.Printf("  failed obligation: %s (contract no longer binds; replay harness %s fails on the real code)\n", n, h.Run)
						}
					}
				}
			}
		}
	}

	// ---- report ----
	exit := 0
	nViol := boundedViol
	for _, f := range finds {
		switch f.kind {
		case "known":
			fmt.Printf("KNOWN-FINDING: property=%s %s — %s\n", id, f.lr.Name, f.kf.Witness)
		case "side":
			fmt.Printf("SIDE-FINDING: property=%s %s (%s) — safety side condition not discharged; not a property violation\n", id, f.lr.Name, f.lr.Src)
		case "undecided":
			if verbose {
				fmt.Printf("UNDECIDED: property=%s %s\n", id, f.lr.Name)
			}
		case "violation":
			nViol++
			rp, reproduced := replayViolation(w, spec, f.lr)
			suffix := ""
			if !reproduced {
				suffix = " no-failing-input-found"
			}
			fmt.Printf("VIOLATION property=%s replay=%s%s\n", id, rp, suffix)
			fmt.Printf("  failed obligation: %s\n  clause: %s\n", f.lr.Name, f.lr.Src)
		}
	}
	if nViol > 0 {
		exit = 1
	}
	if len(vacuous) > 0 {
		for _, v := range vacuous {
			fmt.Printf("CHECK-BROKEN property=%s vacuous context (contradictory assumptions) at %s\n", id, v)
		}
		if exit == 0 {
			exit = 2
		}
	}
	if len(broken) > 0 && !accept {
		for _, b := range broken {
			fmt.Printf("CHECK-BROKEN property=%s %s\n", id, b)
		}
		if exit == 0 {
			exit = 2
		}
	} else if accept {
		for _, b := range broken {
			fmt.Printf("TOOL-LIMIT (not claimed) property=%s %s\n", id, b)
		}
	}
	if nObl == 0 && len(spec.Bounded) == 0 {
		fmt.Printf("CHECK-BROKEN property=%s zero obligations generated\n", id)
		if exit == 0 {
			exit = 2
		}
	}
	// obligation count must not drop below the ledger's count for this property
	if !accept {
		missing := 0
		cur := map[string]bool{}
		for _, fr := range results {
			for n := range fr.Logical {
				cur[n] = true
			}
		}
		for _, k := range ledger.Functions[id] {
			for n, e := range ledger.Obligations {
				if e.Status == "discharged" && strings.HasPrefix(n, k+"/") && !cur[n] && have[k] {
					// a vanished obligation of a still existing function: tolerated only if it is a
					// pre@/safety obligation (call sites may legitimately disappear)
					if !strings.Contains(n, "/pre@") && !strings.Contains(n, "/safety/") && !strings.Contains(n, "/cover") {
						missing++
						fmt.Printf("CHECK-BROKEN property=%s obligation %s of the ledger was not generated\n", id, n)
					}
				}
			}
		}
		if missing > 0 && exit == 0 {
			exit = 2
		}
	}

	// ---- ledger ----
	if accept {
		// drop old entries of this property's functions
		for _, k := range ledger.Functions[id] {
			for n := range ledger.Obligations {
				if strings.HasPrefix(n, k+"/") {
					delete(ledger.Obligations, n)
				}
			}
		}
		var fl []string
		for _, fr := range results {
			if fr.ToolErr != "" {
				continue
			}
			fl = append(fl, fr.Key)
			for n, lr := range fr.Logical {
				if lr.Side {
					continue
				}
				st := "undecided"
				if lr.Status == "discharged" {
					st = "discharged"
					if lr.Ms > int64(timeout)*int64(lr.Queries)*3/4 {
						st = "undecided" // too slow to be stable: not admitted
					}
				}
				ledger.Obligations[n] = LedgerEntry{Status: st, Ms: lr.Ms}
			}
		}
		ledger.Functions[id] = fl
		b, _ := json.MarshalIndent(ledger, "", " ")
		os.WriteFile(filepath.Join(verifRoot, "ledger.json"), b, 0o644)
		fmt.Printf("ledger updated for %s: %d functions\n", id, len(fl))
	}

	// ---- evidence ----
	var fns []map[string]any
	for _, fr := range results {
		nl, nd := 0, 0
		for _, lr := range fr.Logical {
			if lr.Side {
				continue
			}
			nl++
			if lr.Status == "discharged" {
				nd++
			}
		}
		m := map[string]any{"function": fr.Key, "pos": fr.Pos, "ssa_blocks": fr.Blocks, "obligations": nl, "discharged": nd, "smt_queries": fr.Queries, "cover_queries": fr.Covers}
		if fr.ToolErr != "" {
			m["tool_limit"] = fr.ToolErr
		}
		if len(fr.Inlined) > 0 {
			sort.Strings(fr.Inlined)
			m["inlined_callees"] = fr.Inlined
		}
		fns = append(fns, m)
	}
	trusted := []string{}
	for a := range assumedAll {
		trusted = append(trusted, "assumed contract: "+a)
	}
	sort.Strings(trusted)
	trusted = append(trusted, "go/ssa builder (x/tools v0.50.0) and the gowp encoding of Go semantics (DESIGN §2, Program semantics)")
	trusted = append(trusted, "engine facts about the Go memory model used beyond plain loads and stores: the content of append(a, b...) on byte slices is the content of a followed by that of b; the content of the full slice h[:] of a named byte array with a declared bytesOf<Type> function is that function of the array value; an empty slice has the empty content; the cell of a variable captured by a function literal exists; an enclosing variable a function literal does not capture is an unconstrained value in that literal's contract")
	trusted = append(trusted, spec.Notes...)
	level := spec.Level
	if level == "" {
		level = "proof"
	}
	cov := map[string]any{
		"obligations":              nObl,
		"discharged":               nDis,
		"checker_cmd":              fmt.Sprintf("/verif/bin/gowp check --tier %s %s  (per obligation: z3 4.8.12 ∥ z3 5.1.0 race, %d ms limit)", tier, id, timeout),
		"trusted_base":             trusted,
		"samples":                  samples,
		"functions_under_contract": fns,
		"by_solver":                bySolver,
		"solver_time_s":            float64(solverMs) / 1000,
		"load_time_s":              loadS,
		"undecided_not_claimed":    undecided,
		"side_findings":            sideFindings,
		"known_findings":           knownOut,
		"bounded":                  boundedOut,
		"replays_on_real_code":     replayRuns,
		"vacuity":                  map[string]any{"cover_queries": covers, "vacuous": vacuous},
		"not_covered":              spec.NotCovered,
		"explanation":              "obligations are logical proof obligations (post/pre/invariant/assert clauses) of the functions under contract, each possibly split into several SMT queries (one per return point, call site or back edge); safety side conditions (nil, index, overflow) are checked but reported separately and not counted",
		"arithmetic":               "fixed-width integers are modelled exactly with wrap-around, except 64-bit signed +,-,* which are mathematical with a no-overflow side obligation",
	}
	if nObl == 0 {
		// keep the schema's proof-level keys valid only when there is something proved
		cov["evaluations"] = 1
		cov["distinct_nontrivial"] = 2
	}
	ev := map[string]any{
		"property_id": id, "tier": tier, "seed": seed, "level": level, "coverage": cov,
		"assumptions": append([]string{}, spec.Notes...), "wall_s": time.Since(t0).Seconds(), "violations": nViol,
	}
	if !noEvidence {
		os.MkdirAll(filepath.Join(verifRoot, "evidence"), 0o755)
		b, _ := json.MarshalIndent(ev, "", " ")
		os.WriteFile(filepath.Join(verifRoot, "evidence", id+".json"), b, 0o644)
	}
	fmt.Printf("property=%s tier=%s functions=%d obligations=%d discharged=%d undecided=%d known=%d side=%d violations=%d wall=%.1fs exit=%d\n",
		id, tier, len(keys), nObl, nDis, len(undecided), len(knownOut), len(sideFindings), nViol, time.Since(t0).Seconds(), exit)
	return exit
}

func writeReplay(id, obl string, content map[string]any) string {
	dir := filepath.Join(verifRoot, "replays", id+os.Getenv("GOWP_WORK_SUFFIX"))
	os.MkdirAll(dir, 0o755)
	p := filepath.Join(dir, clean(lastN(obl, 100))+".json")
	b, _ := json.MarshalIndent(content, "", " ")
	os.WriteFile(p, b, 0o644)
	return p
}

// replayViolation writes the replay file of a failed obligation. When a component harness exists the
// candidate model is concretised and run against the real code; otherwise the file carries the solver output.
func replayViolation(w *World, spec *PropSpec, lr *logicalResult) (string, bool) {
	var qs []map[string]any
	for _, v := range lr.Failing {
		m := map[string]any{"query": v.Obl.Name, "solver": v.Solver, "verdict": v.Status, "solver_output": v.Detail, "ms": v.Ms}
		if b, err := os.ReadFile(v.File); err == nil {
			// keep the SMT query next to the replay file
			dst := filepath.Join(verifRoot, "replays", spec.ID+os.Getenv("GOWP_WORK_SUFFIX"), filepath.Base(v.File))
			os.MkdirAll(filepath.Dir(dst), 0o755)
			os.WriteFile(dst, b, 0o644)
			m["smt_file"] = dst
		}
		qs = append(qs, m)
	}
	content := map[string]any{
		"property": spec.ID, "obligation": lr.Name, "clause": lr.Src, "kind": lr.Kind, "function": lr.Func,
		"status": lr.Status, "failing_queries": qs,
		"note": "the obligation was discharged on the unchanged tree (ledger) and is not discharged on this tree",
	}
	reproduced := false
	if out, ok := concretise(w, spec, lr); ok {
		content["replay_on_real_code"] = out
		reproduced = true
	}
	return writeReplay(spec.ID, lr.Name, content), reproduced
}

// concretise is the hook for component replay harnesses (see replay.go).
func concretise(w *World, spec *PropSpec, lr *logicalResult) (map[string]any, bool) {
	return runReplayHarness(spec, lr)
}

#!/usr/bin/env python3
# Regenerates MANIFEST.json from claims.json (claimed properties) + properties.jsonl.
import json,subprocess
props=[json.loads(l) for l in open('/verif/properties.jsonl')]
claims=json.load(open('/verif/claims.json'))
hooks=subprocess.run(['git','-C','/repo','log','--format=%H %s'],capture_output=True,text=True).stdout.splitlines()
hook_commits=[l.split()[0] for l in hooks if 'verif hooks:' in l]
m={"version":1,
 "setup_cmd":"cd /verif/gowp && GOFLAGS=-mod=mod GOPROXY=off GOTOOLCHAIN=local go1.26.8 build -o /verif/bin/gowp .",
 "hooks":{"guard":"verif","enable":"-tags verif (comment-only contract files zz_verif_contracts*.go in each package; no executable hook code)",
   "baseline_off_cmd":"cd /repo && go test -vet=off -count=1 -timeout 25m ./... && cd /repo/cache && go test -vet=off -count=1 -timeout 25m ./...",
   "source_commits":hook_commits,"add_only":True},
 "engines":[{"name":"gowp","path":"/verif/gowp","serves_properties":sorted(claims['checks'].keys()),"kind_free_text":"contract-based deductive verifier written for this task: VC generation by forward symbolic execution over go/ssa of the real packages (contracts in //@ comments of verif-tagged files, assumed contracts for dependencies in /verif/contracts/ext), obligations discharged by z3 4.8.12 / z3 5.1.0 raced per obligation, go test -overlay replay harnesses"}],
 "checks":[],"not_applicable":[],
 "notes":"See DESIGN.md. Checks exit 0 (held), 1 + VIOLATION line, or 2 + CHECK-BROKEN line when the contracts no longer bind to the code (undecided, neither pass nor alarm)."}
for p in props:
    c=claims['checks'].get(p['id'])
    if c:
        m['checks'].append({"property_id":p['id'],"quick_cmd":"./check %s --tier quick"%p['id'],"thorough_cmd":"./check %s --tier thorough"%p['id'],
          "evidence_file":"/verif/evidence/%s.json"%p['id'],"replay_cmd_template":"./check --replay {path}","engine":"gowp",
          "level_claimed":{"category":c.get('category','proof'),"text":c['text'],"design_ref":c.get('design_ref','DESIGN.md §4 '+p['id'])},
          "level_note":c['note'],"technique":c.get('technique',"contract-based deductive verification: weakest-precondition style VCs generated from go/ssa of the real functions, discharged by z3")})
    else:
        m['not_applicable'].append({"property_id":p['id'],"reason":claims['not_applicable'].get(p['id'],"check not built yet (build phase in progress)")})
json.dump(m,open('/verif/MANIFEST.json','w'),indent=1)
print(len(m['checks']),'checks',len(m['not_applicable']),'n/a')

#!/usr/bin/env python3
# seed_mark.py name:check[,check...] ... : runs the named checks against stored seeded changes (as source overlays, /repo is
# left untouched) and merges the outcome into the change's meta.json (detected_by / failed_obligations / exit2 of the
# other checks are kept). For re-running the few (change, check) pairs an extension was written for.
import json, os, subprocess, sys, re, shutil, tempfile
def sh(cmd, env=None): return subprocess.run(cmd, shell=True, capture_output=True, text=True, env=env)
for arg in sys.argv[1:]:
    name, checks = arg.split(':'); checks = checks.split(',')
    d = f'/verif/seeded/{name}'
    meta = json.load(open(f'{d}/meta.json'))
    patch = open(f'{d}/patch.diff').read()
    touched = sorted(set(re.findall(r'^\+\+\+ b/(.*)$', patch, re.M)))
    tmp = tempfile.mkdtemp(prefix='ov_' + name + '_')
    try:
        for t in touched:
            os.makedirs(os.path.dirname(f'{tmp}/{t}') or tmp, exist_ok=True)
            if os.path.exists(f'/repo/{t}'): shutil.copy(f'/repo/{t}', f'{tmp}/{t}')
        if sh(f'cd {tmp} && patch -p1 -s < {d}/patch.diff').returncode != 0:
            print(name, 'patch does not apply'); continue
        json.dump({f'/repo/{t}': f'{tmp}/{t}' for t in touched}, open(f'{tmp}/overlay.json', 'w'))
        env = dict(os.environ, GOWP_NO_RETRY='1', GOWP_WORK_SUFFIX='_' + name)
        det = set(meta.get('detected_by', [])); brk = set(meta.get('checks_undecided_exit2', [])); obl = dict(meta.get('failed_obligations', {}))
        run = set(meta.get('checks_run', []))
        for pid in checks:
            rr = sh(f'cd /verif && ./check {pid} --no-evidence --overlay {tmp}/overlay.json', env)
            run.add(pid); det.discard(pid); brk.discard(pid); obl.pop(pid, None)
            if rr.returncode == 1 and 'VIOLATION' in rr.stdout:
                det.add(pid); obl[pid] = re.findall(r'failed obligation: (.*)', rr.stdout)
            elif rr.returncode == 2: brk.add(pid)
            shutil.rmtree(f'/verif/work/{pid}_{name}', ignore_errors=True)
            shutil.rmtree(f'/verif/replays/{pid}_{name}', ignore_errors=True)
        meta.update({'checks_run': sorted(run), 'detected_by': sorted(det), 'failed_obligations': obl, 'checks_undecided_exit2': sorted(brk)})
        if det: meta.pop('detection_note', None)
        json.dump(meta, open(f'{d}/meta.json', 'w'), indent=1)
        print(name, 'detected_by', sorted(det), 'exit2', sorted(brk), flush=True)
    finally:
        shutil.rmtree(tmp, ignore_errors=True)

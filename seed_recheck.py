#!/usr/bin/env python3
# seed_recheck.py [--all | name...]: re-runs the claimed checks against stored seeded changes (seeded/<name>/patch.diff)
# and updates detected_by / failed_obligations in their meta.json. /repo must be clean; it is restored afterwards.
import json, os, subprocess, sys, re, glob
def sh(cmd): return subprocess.run(cmd, shell=True, capture_output=True, text=True)
assert sh('git -C /repo status --porcelain').stdout.strip() == '', '/repo not clean'
props = [p['id'] for p in json.load(open('/verif/props.json'))]
fast = '--fast' in sys.argv
names = [a for a in sys.argv[1:] if a != '--fast']
if names == ['--all']:
    names = sorted(os.path.basename(os.path.dirname(m)) for m in glob.glob('/verif/seeded/*/meta.json'))
for name in names:
    d = f'/verif/seeded/{name}'
    meta = json.load(open(f'{d}/meta.json'))
    if meta.get('applies_to_current_repo') is False: continue
    if sh(f'git -C /repo apply --check {d}/patch.diff').returncode != 0:
        print(name, 'patch does not apply'); continue
    touched = set(re.findall(r'^\+\+\+ b/(.*)$', open(f'{d}/patch.diff').read(), re.M))
    rel = {meta.get('seeded_for', meta.get('property'))}
    for t in touched:
        dd = os.path.dirname(t)
        if dd.startswith('headerfs'): rel |= {'C07','C08','C01','C14'}
        elif dd.startswith('banman'): rel |= {'C13'}
        elif dd.startswith('cache'): rel |= {'C16'}
        elif dd.startswith('pushtx'): rel |= {'C15'}
        elif dd.startswith('blockntfns'): rel |= {'C11','C19'}
        elif dd.startswith('chainimport'): rel |= {'C14'}
        elif dd.startswith('query'): rel |= {'C12'}
        elif dd == '': rel |= {'C01','C02','C03','C05','C06','C09','C10','C13','C19'}
    if fast and meta.get('detected_by'):
        # a change that was reported before: re-run the property it was seeded for and the checks that reported it
        rel = {meta.get('seeded_for', meta.get('property'))} | set(meta['detected_by'])
    sh(f'git -C /repo apply {d}/patch.diff')
    detected, broken, obligations = [], [], {}
    try:
        for pid in [x for x in props if x in rel]:
            rr = sh(f'cd /verif && ./check {pid} --no-evidence')
            if rr.returncode == 1 and 'VIOLATION' in rr.stdout:
                detected.append(pid); obligations[pid] = re.findall(r'failed obligation: (.*)', rr.stdout)
            elif rr.returncode == 2: broken.append(pid)
    finally:
        sh('git -C /repo checkout -- .')
    meta.update({'checks_run': sorted(rel & set(props)), 'detected_by': detected, 'failed_obligations': obligations, 'checks_undecided_exit2': broken})
    if detected: meta.pop('detection_note', None)
    json.dump(meta, open(f'{d}/meta.json', 'w'), indent=1)
    print(name, 'detected_by', detected, 'exit2', broken, flush=True)

#!/bin/bash
# confirm_seeded.sh <worktree> <n>: confirm a seeded change in its scratch worktree:
# demo fails with the patch, existing tests of the touched packages pass with it, demo passes without it.
wt="$1"; n="$2"; d="$wt/mutants/$n"
meta="$d/meta.json"
pkg=$(python3 -c "import json;print(json.load(open('$meta')).get('demo_package_dir','.'))")
fname=$(python3 -c "import json;print(json.load(open('$meta')).get('demo_file_name','zz_demo_test.go'))")
pkg=${pkg#/}; pkg=${pkg#$wt/}; pkg=${pkg#./}; [ -z "$pkg" ] && pkg="."
mod="$wt"; rel="$pkg"
case "$pkg" in cache/*|cache) mod="$wt/cache"; rel="${pkg#cache}"; rel="${rel#/}"; [ -z "$rel" ] && rel=".";; esac
cd "$wt" && git checkout -q -- . 
touched=$(grep '^+++ b/' "$d/patch.diff" | sed 's|+++ b/||' | xargs -n1 dirname | sort -u)
run=$(grep -o 'func Test[A-Za-z0-9_]*' "$d/demo_test.go" | sed 's/func //' | paste -sd'|')
echo "== $wt #$n pkg=$pkg run=$run touched=$touched"
git apply "$d/patch.diff" || { echo "RESULT patch-fail"; exit 1; }
cp "$d/demo_test.go" "$wt/$pkg/$fname"
(cd "$mod" && go test -vet=off -count=1 -timeout 300s -run "^($run)\$" "./$rel" > /tmp/confirm_demo_with.log 2>&1); with=$?
rm -f "$wt/$pkg/$fname"
existing=0
for t in $touched; do
  m="$wt"; r="$t"
  case "$t" in cache/*|cache) m="$wt/cache"; r="${t#cache}"; r="${r#/}"; [ -z "$r" ] && r=".";; esac
  (cd "$m" && go test -vet=off -count=1 -timeout 900s "./$r" > /tmp/confirm_existing_$$.log 2>&1) || { existing=1; grep -E "^(--- FAIL|FAIL|ok)" /tmp/confirm_existing_$$.log | head -8; }
done
git checkout -q -- .
cp "$d/demo_test.go" "$wt/$pkg/$fname"
(cd "$mod" && go test -vet=off -count=1 -timeout 300s -run "^($run)\$" "./$rel" > /tmp/confirm_demo_without.log 2>&1); without=$?
rm -f "$wt/$pkg/$fname"
echo "RESULT demo_with_patch_exit=$with existing_tests_exit=$existing demo_without_patch_exit=$without"

package headerfs

// Bounded stand-in for the assumed contracts of index.go (headerIndex.addHeaders, truncateIndices, chainTip,
// heightFromHash): every sequence of at most maxOps operations over a small universe of hashes is run against
// the REAL index on real bbolt and compared with the finite-map specification the contracts state.
// Labelled "bounded": never counted as proved.

import (
	"fmt"
	"os"
	"path/filepath"
	"testing"
	"time"

	"github.com/btcsuite/btcd/chainhash/v2"
	"github.com/btcsuite/btcwallet/walletdb"
	_ "github.com/btcsuite/btcwallet/walletdb/bdb"
)

type idxModel struct {
	idx    map[chainhash.Hash]uint32
	tip    chainhash.Hash
	hasTip bool
}

var vbCase int

func vbHash(i int) chainhash.Hash {
	var h chainhash.Hash
	if i != 0 {
		// a fresh hash universe per enumerated case (one shared database)
		h[2], h[3], h[4] = byte(vbCase), byte(vbCase>>8), byte(vbCase>>16)
	}
	// spread over sub-buckets and keep a collision-free numbering
	h[0] = byte(i * 37)
	h[1] = byte(i)
	h[31] = byte(i + 1)
	return h
}

func vbCheck(t *testing.T, ix *headerIndex, m *idxModel, ctx string) {
	for i := 0; i < 8; i++ {
		h := vbHash(i)
		got, err := ix.heightFromHash(&h)
		want, ok := m.idx[h]
		if ok != (err == nil) || (ok && got != want) {
			t.Fatalf("BOUNDED-VIOLATION %s: heightFromHash(%d) = %d,%v want %d,%v", ctx, i, got, err, want, ok)
		}
	}
	th, tH, err := ix.chainTip()
	wantH, inIdx := m.idx[m.tip]
	wantOK := m.hasTip && inIdx
	if wantOK != (err == nil) {
		t.Fatalf("BOUNDED-VIOLATION %s: chainTip err=%v, model hasTip=%v inIdx=%v", ctx, err, m.hasTip, inIdx)
	}
	if err == nil && (*th != m.tip || tH != wantH) {
		t.Fatalf("BOUNDED-VIOLATION %s: chainTip = %v,%d want %v,%d", ctx, th, tH, m.tip, wantH)
	}
}

func TestBoundedHeaderIndex(t *testing.T) {
	maxLen := 3
	if os.Getenv("VERIF_TIER") == "thorough" {
		maxLen = 4
	}
	cases := 0
	// an operation: add a batch of k consecutive headers on top of the model tip (k in 0..2),
	// or roll back k entries (k in 1..2) with remove=true, or only move the tip (remove=false)
	type op struct{ kind, k int }
	var ops []op
	for k := 0; k <= 2; k++ {
		ops = append(ops, op{0, k})
	}
	ops = append(ops, op{1, 1}, op{1, 2}, op{2, 1})
	dir := t.TempDir()
	db, err := walletdb.Create("bdb", filepath.Join(dir, "i.db"), true, 10*time.Second, false)
	if err != nil {
		t.Fatal(err)
	}
	defer db.Close()
	ix, err := newHeaderIndex(db, Block)
	if err != nil {
		t.Fatal(err)
	}
	g0 := vbHash(0)
	if err := ix.addHeaders(headerBatch{{hash: g0, height: 0}}); err != nil {
		t.Fatal(err)
	}
	var run func(seq []op)
	run = func(seq []op) {
		if len(seq) > 0 {
			cases++
			vbCase = cases
			m := &idxModel{idx: map[chainhash.Hash]uint32{}}
			// genesis (shared); reset the tip to it
			g := vbHash(0)
			if err := ix.truncateIndices(&g, nil, false); err != nil {
				t.Fatal(err)
			}
			m.idx[g], m.tip, m.hasTip = 0, g, true
			top := 0
			for si, o := range seq {
				ctx := fmt.Sprintf("seq=%v step=%d", seq, si)
				switch o.kind {
				case 0:
					var b headerBatch
					for j := 1; j <= o.k && top+j < 8; j++ {
						b = append(b, headerEntry{hash: vbHash(top + j), height: uint32(top + j)})
					}
					// the contract allows any order on entry (the index sorts); pass it reversed
					rb := make(headerBatch, len(b))
					for j := range b {
						rb[len(b)-1-j] = b[j]
					}
					if err := ix.addHeaders(rb); err != nil {
						t.Fatalf("BOUNDED-VIOLATION %s: addHeaders: %v", ctx, err)
					}
					for _, e := range b {
						m.idx[e.hash] = e.height
						m.tip = e.hash
					}
					top += len(b)
				case 1:
					if o.k > top {
						continue
					}
					var rem []*chainhash.Hash
					for j := 0; j < o.k; j++ {
						h := vbHash(top - j)
						rem = append(rem, &h)
					}
					nt := vbHash(top - o.k)
					if err := ix.truncateIndices(&nt, rem, true); err != nil {
						t.Fatalf("BOUNDED-VIOLATION %s: truncateIndices: %v", ctx, err)
					}
					for _, h := range rem {
						delete(m.idx, *h)
					}
					m.tip = nt
					top -= o.k
				case 2:
					if top < 1 {
						continue
					}
					nt := vbHash(top - 1)
					if err := ix.truncateIndices(&nt, nil, false); err != nil {
						t.Fatalf("BOUNDED-VIOLATION %s: truncateIndices(tip only): %v", ctx, err)
					}
					m.tip = nt
					// restore the tip so that later steps keep the block-store discipline
					ot := vbHash(top)
					if err := ix.truncateIndices(&ot, nil, false); err != nil {
						t.Fatal(err)
					}
					m.tip = ot
				}
				vbCheck(t, ix, m, ctx)
			}
			// argument errors of truncateIndices
			nt := vbHash(0)
			if err := ix.truncateIndices(&nt, nil, true); err == nil {
				t.Fatalf("BOUNDED-VIOLATION: remove without hashes accepted")
			}
		}
		if len(seq) == maxLen {
			return
		}
		for _, o := range ops {
			run(append(append([]op{}, seq...), o))
		}
	}
	run(nil)
	fmt.Printf("BOUNDED-CASES %d\n", cases)
}
